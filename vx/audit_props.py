import sys,re; sys.path.insert(0,'/verif')
from vx import gen
from vx.rsparse import mask
import json
units=json.load(open('/verif/contracts/units.json'))['units']
for uname,u in units.items():
    for fl in u['flavours'][:1] + u['flavours'][2:3] if len(u['flavours'])>2 else u['flavours'][:1]:
        g=gen.generate('/verif/contracts/%s'%u['template'],fl)
        text=g.lines
        byname={}
        for f in g.fns: byname.setdefault(f['name'],[]).append(f)
        rep={}
        for f in g.fns:
            body="\n".join(text[f['gen_start']:f['gen_end']])
            m=mask(body)
            for mm in re.finditer(r"(?:\.|::)\s*([A-Za-z_]\w*)\s*(?:::<[^>]*>)?\s*\(", m):
                nm=mm.group(1)
                for c in byname.get(nm,[]):
                    if c['id']==f['id']: continue
                    miss=[p for p in f['props'] if p not in c['props']]
                    if miss: rep.setdefault((c['id'],tuple(c['props'])),{}).setdefault(f['id'],miss)
        print('==',uname,fl)
        for (cid,cp),callers in sorted(rep.items()):
            allmiss=sorted(set(p for v in callers.values() for p in v))
            print('  %-34s has %s; missing %s  (callers: %s)'%(cid,' '.join(cp),' '.join(allmiss),', '.join(sorted(callers))[:150]))
