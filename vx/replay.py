#!/usr/bin/env python3
"""Replay a violation file written by vx/check.py (replay/<property>/<obligation>.json):
re-extracts the function from /repo's current tree, re-generates the unit, re-runs Verus on that function and prints
the verifier's diagnostics; if a witness program is registered for the obligation it is compiled against /repo and
run, and its observable failure is shown."""
import json, os, subprocess, sys
HERE = os.path.dirname(os.path.abspath(__file__))
ROOT = os.path.dirname(HERE)
sys.path.insert(0, ROOT)


def main():
    if len(sys.argv) != 2:
        print(__doc__)
        return 2
    r = json.load(open(sys.argv[1]))
    print("property   :", r["property"])
    print("obligation :", r["obligation"])
    print("source     :", r.get("source"))
    print("failed     :", r["failed_clauses"])
    if r.get("proof_hints_that_could_not_be_placed"):
        print("proof hints that could not be placed in the changed text:")
        for h in r["proof_hints_that_could_not_be_placed"]:
            print("   -", h)
    print("counterexample:", r["counterexample"] if isinstance(r["counterexample"], str) else json.dumps(r["counterexample"], indent=1)[:3000])
    parts = r["obligation"].split("/", 2)
    if parts[0] == "scan":
        print("\n(re-running the syntactic R4b scan)")
        return subprocess.call([sys.executable, os.path.join(HERE, "check.py"), "--property", r["property"]])
    unit, fl, fn = parts
    print("\n--- re-running Verus on %s/%s :: %s against the current tree" % (unit, fl, fn))
    rc = subprocess.call([sys.executable, os.path.join(HERE, "check.py"), "--unit", unit, "--flavour", fl, "--function", fn, "--no-vacuity"])
    from vx import witness
    w = witness.try_witness(r["property"], dict(obligation=r["obligation"]), os.environ.get("VERIF_REPO", "/repo"))
    if w:
        print("\n--- witness program %s fails on this tree (%s):\n%s" % (w["witness_program"], w["observed"], w["output"]))
    else:
        print("\n(no registered witness program fails on this tree: no-failing-input-found)")
    return rc


if __name__ == "__main__":
    sys.exit(main())
