"""Witness programs (DESIGN §3.8): small mains against the real crate that show a known defect.  A witness is
attached to a violation only if it fails (non-zero exit) on the tree being checked."""
import json, os, shutil, subprocess, tempfile

ROOT = os.path.dirname(os.path.dirname(os.path.abspath(__file__)))


def run_witness(entry, repo, timeout=900):
    src = os.path.join(ROOT, "witness", entry["file"])
    if not os.path.exists(os.path.join(repo, "Cargo.toml")):
        return None  # a bare source copy: nothing to compile against
    d = tempfile.mkdtemp(prefix="vxwit_")
    try:
        os.makedirs(os.path.join(d, "src"))
        shutil.copy(src, os.path.join(d, "src", "main.rs"))
        deps = "".join('%s = "1"\n' % x for x in entry.get("deps", []))
        open(os.path.join(d, "Cargo.toml"), "w").write(
            '[package]\nname = "vxwit"\nversion = "0.1.0"\nedition = "2021"\n[workspace]\n[dependencies]\ngdsl = { path = "%s" }\n%s' % (repo, deps))
        env = dict(os.environ, CARGO_NET_OFFLINE="true", CARGO_TARGET_DIR=os.path.join(d, "target"))
        p = subprocess.run(["cargo", "run", "--offline", "-q"], cwd=d, stdout=subprocess.PIPE, stderr=subprocess.STDOUT, text=True, timeout=timeout, env=env)
        return dict(file=entry["file"], exit=p.returncode, output=p.stdout[-2000:])
    except Exception as e:
        return dict(file=entry["file"], exit=None, output="could not run: %s" % e)
    finally:
        shutil.rmtree(d, ignore_errors=True)


def try_witness(prop, v, repo):
    idx = json.load(open(os.path.join(ROOT, "witness", "index.json")))["witnesses"]
    for e in idx:
        if v["obligation"] in e["obligations"]:
            r = run_witness(e, repo)
            if r and r["exit"] not in (0, None):
                return dict(witness_program="witness/" + e["file"], observed="exit %s" % r["exit"], output=r["output"])
    return None
