"""Witness programs (DESIGN §3.8): small mains against the real crate that show a known defect.  A witness is
attached to a violation only if it fails (non-zero exit) on the tree being checked."""
import json, os, re, shutil, subprocess, tempfile

ROOT = os.path.dirname(os.path.dirname(os.path.abspath(__file__)))


def run_witness(entry, repo, timeout=900):
    src = os.path.join(ROOT, "witness", entry["file"])
    if not os.path.exists(os.path.join(repo, "Cargo.toml")):
        return None  # a bare source copy: nothing to compile against
    d = tempfile.mkdtemp(prefix="vxwit_")
    try:
        os.makedirs(os.path.join(d, "src"))
        shutil.copy(src, os.path.join(d, "src", "main.rs"))
        deps = "".join('%s = "1"\n' % x for x in entry.get("deps", []))
        open(os.path.join(d, "Cargo.toml"), "w").write(
            '[package]\nname = "vxwit"\nversion = "0.1.0"\nedition = "2021"\n[workspace]\n[dependencies]\ngdsl = { path = "%s" }\n%s' % (repo, deps))
        env = dict(os.environ, CARGO_NET_OFFLINE="true", CARGO_TARGET_DIR=os.path.join(d, "target"))
        p = subprocess.run(["cargo", "run", "--offline", "-q"], cwd=d, stdout=subprocess.PIPE, stderr=subprocess.STDOUT, text=True, timeout=timeout, env=env)
        return dict(file=entry["file"], exit=p.returncode, output=p.stdout[-2000:])
    except Exception as e:
        return dict(file=entry["file"], exit=None, output="could not run: %s" % e)
    finally:
        shutil.rmtree(d, ignore_errors=True)


def try_witness(prop, v, repo):
    idx = json.load(open(os.path.join(ROOT, "witness", "index.json")))["witnesses"]
    for e in idx:
        if v["obligation"] in e["obligations"]:
            r = run_witness(e, repo)
            if r and r["exit"] not in (0, None):
                return dict(witness_program="witness/" + e["file"], observed="exit %s" % r["exit"], output=r["output"])
    return None


MIN_MANIFEST = """[package]
name = "gdsl"
version = "0.0.0"
edition = "2021"
[workspace]
[dependencies]
ahash = "0.8.6"
serde = "1.0.190"
thiserror = "1.0.50"
"""

_ORACLE_CACHE = {}


def oracle_programs(prop):
    """property-level test oracles: the demonstration programs that came with the seeded changes of this property
    (each checks the property on enumerated / random small graphs against an independent computation and passes on
    the unchanged library) plus the stored defect witnesses"""
    import glob
    res = []
    for d in sorted(glob.glob(os.path.join(ROOT, "seeded", "*"))):
        mp = os.path.join(d, "meta.json")
        if not os.path.isdir(os.path.join(d, "demo")) or not os.path.exists(mp):
            continue
        try:
            m = json.load(open(mp))
        except Exception:
            continue
        p = str(m.get("property", "")).split()[0].strip(",") if m.get("property") else ""
        if p == prop and m.get("confirmation", {}).get("confirmed"):
            res.append(("seeded/%s/demo" % os.path.basename(d), os.path.join(d, "demo")))
    # oracle programs written for the machinery itself (witness/oracles/<property>_<name>/: a cargo package like the demos)
    for d in sorted(glob.glob(os.path.join(ROOT, "witness", "oracles", prop + "_*"))):
        if os.path.exists(os.path.join(d, "Cargo.toml")):
            res.append(("witness/oracles/%s" % os.path.basename(d), d))
    excl = set()
    try:
        excl = set(json.load(open(os.path.join(ROOT, "witness", "oracle_validation.json"))).get("excluded", []))
    except Exception:
        pass
    # a seeded change under test is never confirmed by its own demonstration program
    own = os.environ.get("VERIF_ORACLE_EXCLUDE")
    if own:
        excl.add("seeded/%s/demo" % own)
    return [r for r in res if r[0] not in excl]


def run_oracles(prop, repo, timeout=900, jobs=4):
    """Build the library sources of the tree under check (repo/src) as a crate of their own in a scratch directory
    (outside /repo and /verif, removed afterwards) and run the property's oracle programs against it.  Returns the
    first failing program (name, exit code, output tail) or None.  Only used to confirm a refutation that the verifier
    could not attribute (proof annotations lost): a failing input shown on the real code."""
    key = (prop, os.path.realpath(repo))
    if key in _ORACLE_CACHE:
        return _ORACLE_CACHE[key]
    import concurrent.futures as cff
    progs = oracle_programs(prop)
    res = None
    if progs and os.path.isdir(os.path.join(repo, "src")):
        d = tempfile.mkdtemp(prefix="vxora_")
        try:
            lib = os.path.join(d, "gdsl")
            os.makedirs(lib)
            shutil.copytree(os.path.join(repo, "src"), os.path.join(lib, "src"))
            open(os.path.join(lib, "Cargo.toml"), "w").write(MIN_MANIFEST)
            env = dict(os.environ, CARGO_NET_OFFLINE="true", CARGO_TARGET_DIR=os.path.join(d, "target"), RUSTFLAGS="-Awarnings")

            def prep(i, item):
                name, src = item
                pd = os.path.join(d, "o%d" % i)
                shutil.copytree(src, pd, ignore=shutil.ignore_patterns("target", "Cargo.lock"))
                for root, _, files in os.walk(pd):
                    for f in files:
                        if f == "Cargo.toml":
                            p = os.path.join(root, f)
                            s = open(p).read().replace("REPO_PATH_PLACEHOLDER", lib)
                            # unique package (= binary) names: the programs share one target directory
                            s = re.sub(r'(?m)^name\s*=\s*"[^"]*"', 'name = "oracle_%d"' % i, s, count=1)
                            if "[workspace]" not in s:
                                s += "\n[workspace]\n"
                            open(p, "w").write(s)
                return name, pd

            prepared = [prep(i, it) for i, it in enumerate(progs)]
            # build the library once, then the programs
            first = prepared[0]
            subprocess.run(["cargo", "build", "--offline", "-q"], cwd=first[1], env=env, stdout=subprocess.PIPE, stderr=subprocess.STDOUT, text=True, timeout=timeout)

            def run(item):
                name, pd = item
                try:
                    p = subprocess.run(["cargo", "run", "--offline", "-q"], cwd=pd, env=env, stdout=subprocess.PIPE, stderr=subprocess.STDOUT, text=True, timeout=timeout)
                    return name, p.returncode, p.stdout[-1500:]
                except Exception as e:
                    return name, None, "could not run: %s" % e
            with cff.ThreadPoolExecutor(jobs) as ex:
                outs = list(ex.map(run, prepared))
            bad = [o for o in outs if o[1] not in (0, None)]
            # a compile error of the oracle itself (API changed) is no evidence either way
            bad = [o for o in bad if "error[E" not in o[2] and "could not compile" not in o[2]]
            if bad:
                name, rc, out = bad[0]
                res = dict(witness_program=name, observed="exit %s" % rc, output=out, programs_run=len(outs), programs_failed=[o[0] for o in bad])
        finally:
            shutil.rmtree(d, ignore_errors=True)
    _ORACLE_CACHE[key] = res
    return res
