"""Generator: contracts/*.vx template + function texts extracted from /repo
-> one self-contained Verus file per (unit, flavour).

See DESIGN.md section 3.  The template is Verus source with directive lines:

  //@include <path relative to /verif/contracts>
  //@if dg,sdg ... //@else ... //@endif          flavour-conditional lines
  //@fn <id> <- <file> :: <impl header regex> :: <fn name>
  //@props C01 C03                                properties served
  //@heap none|ref|mut                            R4 heap parameter
  //@ret r                                        name of the return value
  //@rewrite `<text>` => `<text>`                 exact-once rewrite (whitespace-insensitive)
  //@rewrite? ...                                 same, zero-or-once
  //@sigrewrite `<text>` => `<text>`              same on the signature only
  //@spec            + lines                      requires / ensures / decreases
  //@loop <n>        + lines                      invariant / decreases / ensures of loop n
  //@before `<text>` + lines                      splice ghost lines before the statement
  //@after `<text>`  + lines
  //@body-start      + lines
  //@before-tail     + lines                      before the tail expression of the body
  //@end

Everything the generator changes in a function text is one of the named rules
(R1..R12, R4b); each firing is counted and reported.
"""
import hashlib
import os
import re

from .rsparse import ExtractError, GuardEscape, extract_fn, extract_region, mask, match_close, norm_ws

FLAVOURS = {
    "dg": dict(dir="digraph", sync=False, directed=True),
    "sdg": dict(dir="sync_digraph", sync=True, directed=True),
    "ug": dict(dir="ungraph", sync=False, directed=False),
    "sug": dict(dir="sync_ungraph", sync=True, directed=False),
}


def pat_to_regex(p: str) -> str:
    """whitespace-insensitive literal pattern; `...` (three dots as its own
    token) is NOT a wildcard: patterns are literal."""
    toks = re.findall(r"[A-Za-z_0-9]+|\S", p)
    out = []
    for i, t in enumerate(toks):
        out.append(re.escape(t))
    # identifiers that are adjacent in the pattern need at least one space
    rx = ""
    for i, t in enumerate(toks):
        if i:
            prev = toks[i - 1]
            if re.match(r"\w", prev[-1]) and re.match(r"\w", t[0]):
                rx += r"\s+"
            else:
                rx += r"\s*"
        rx += re.escape(t)
    # do not match inside a longer identifier
    if re.match(r"\w", toks[0][0]):
        rx = r"(?<![\w])" + rx
    if re.match(r"\w", toks[-1][-1]):
        rx = rx + r"(?![\w])"
    return rx


class FnBlock:
    def __init__(self, fid, file, impl, name):
        self.id, self.file, self.impl, self.name = fid, file, impl, name
        self.props = []
        self.heap = "none"
        self.ret = "r"
        self.rewrites = []      # (kind, from, to, optional)
        self.closures = []      # (head, annotated head): R6 closure annotation, body wrapped in a block
        self.spec = []
        self.loops = {}
        self.splices = []       # (where, pattern, lines)
        self.extern_body = False
        self.optional = False   # the function need not exist in the repository (e.g. an overridden default trait method)
        self.nolabel = False
        self.novac = False
        self.trait_impl = False
        self.text = False       # //@text: the function builds a String (R20)
        self.region = None
        self.regionsig = None
        self.region_prelude = None


def preprocess(path, flavour, subst=None):
    """Resolve //@include and //@if.  Returns list of (line, origin)."""
    base = os.path.dirname(path)
    out = []
    stack = []  # active flags
    for ln, line in enumerate(open(path).read().split("\n"), 1):
        for k_, v_ in (subst or {}).items():
            line = line.replace("{" + k_ + "}", v_)
        s = line.strip()
        if s.startswith("//@if "):
            fl = [x.strip() for x in s[6:].split(",")]
            stack.append(flavour in fl)
            continue
        if s == "//@else":
            stack[-1] = not stack[-1]
            continue
        if s == "//@endif":
            stack.pop()
            continue
        if not all(stack):
            continue
        if s.startswith("//@include "):
            parts = s[11:].split()
            inc = os.path.join(os.path.dirname(os.path.abspath(path)), parts[0])
            sub2 = dict(subst or {})
            sub2.update(dict(p.split("=", 1) for p in parts[1:]))
            out.extend(preprocess(inc, flavour, sub2))
            continue
        out.append((line, "%s:%d" % (os.path.relpath(path, "/verif"), ln)))
    if stack:
        raise ExtractError("unterminated //@if in %s" % path)
    return out


def parse_template(lines, flavour):
    """-> list of ('text', [lines]) and ('fn', FnBlock)."""
    items = []
    cur = None
    sink = None
    buf = []
    fl = FLAVOURS[flavour]
    for line, origin in lines:
        s = line.strip()
        if cur is None:
            if s.startswith("//@region "):
                if buf:
                    items.append(("text", buf))
                    buf = []
                m = re.match(r"//@region\s+(\S+)\s*<-\s*(\S+)\s*::\s*(\w+)\s*::\s*`(.*?)`\s*\.\.\s*`(.*?)`\s*$", s)
                if not m:
                    raise ExtractError("bad //@region line at %s: %s" % (origin, s))
                cur = FnBlock(m.group(1), m.group(2).replace("{FL}", fl["dir"]), "", m.group(1).split("::")[-1])
                cur.region = (m.group(3), m.group(4), m.group(5))
                cur.origin = origin
                sink = None
                continue
            if s.startswith("//@fn "):
                if buf:
                    items.append(("text", buf))
                    buf = []
                m = re.match(r"//@fn\s+(\S+)\s*<-\s*(\S+)\s*::\s*(.*?)\s*::\s*(\w+)\s*$", s)
                if not m:
                    raise ExtractError("bad //@fn line at %s: %s" % (origin, s))
                cur = FnBlock(m.group(1), m.group(2).replace("{FL}", fl["dir"]), m.group(3), m.group(4))
                cur.origin = origin
                sink = None
            else:
                buf.append(line)
            continue
        # inside fn block
        if s == "//@end":
            items.append(("fn", cur))
            cur = None
            sink = None
        elif s.startswith("//@props"):
            cur.props = s.split()[1:]
        elif s.startswith("//@heap"):
            cur.heap = s.split()[1]
        elif s.startswith("//@ret"):
            cur.ret = s.split()[1]
        elif s == "//@extern-body":
            cur.extern_body = True
        elif s == "//@nolabel":
            cur.nolabel = True
        elif s == "//@optional":
            cur.optional = True
        elif s == "//@novac":
            cur.novac = True
        elif s == "//@text":
            cur.text = True
        elif s == "//@trait-impl":
            cur.trait_impl = True
            cur.novac = True
        elif s.startswith("//@rewrite") or s.startswith("//@sigrewrite"):
            m = re.match(r"//@(sig)?rewrite(\??|-all)\s+`(.*?)`\s*=>\s*`(.*)`\s*$", s)
            if not m:
                raise ExtractError("bad rewrite at %s" % origin)
            cur.rewrites.append(("sig" if m.group(1) else "all", m.group(3), m.group(4), {"": False, "?": True, "-all": "all"}[m.group(2)]))
        elif s.startswith("//@closure "):
            m = re.match(r"//@closure\s+`(.*?)`\s*=>\s*`(.*)`\s*$", s)
            if not m:
                raise ExtractError("bad closure directive at %s" % origin)
            cur.closures.append((m.group(1), m.group(2)))
        elif s.startswith("//@regionsig "):
            cur.regionsig = s[len("//@regionsig "):]
        elif s.startswith("//@region-prelude "):
            cur.region_prelude = s[len("//@region-prelude "):]
        elif s == "//@spec":
            sink = cur.spec
        elif s.startswith("//@loop "):
            n = int(s.split()[1])
            sink = cur.loops.setdefault(n, [])
        elif s.startswith("//@before-loop "):
            sink = []
            cur.splices.append(("before-loop", int(s.split()[1]), sink))
        elif re.match(r"//@(before|after|before-stmt|after-stmt|in-block)(\[loop \d+\])? ", s):
            m = re.match(r"//@(before-stmt|after-stmt|in-block|before|after)(?:\[loop (\d+)\])?\s+`(.*)`\s*(?:#(\d+)/(\d+))?\s*(~tail)?\s*$", s)
            if not m:
                raise ExtractError("bad splice at %s" % origin)
            sink = []
            pats = m.group(3).split("` | `")
            if m.group(4):
                pats = (pats, int(m.group(4)), int(m.group(5)))
            where = m.group(1)
            if m.group(2):
                where = "%s@%s" % (where, m.group(2))     # anchor searched inside the body of loop n only
            if m.group(6):
                where = where + "~tail"                    # anchor gone: place the hint before the tail expression instead
            cur.splices.append((where, pats, sink))
        elif s.startswith("//@loop-end "):
            sink = []
            cur.splices.append(("loop-end", int(s.split()[1]), sink))
        elif s.startswith("//@loop-start "):
            sink = []
            cur.splices.append(("loop-start", int(s.split()[1]), sink))
        elif s.startswith("//@after-loop "):
            sink = []
            cur.splices.append(("after-loop", int(s.split()[1]), sink))
        elif s == "//@body-start":
            sink = []
            cur.splices.append(("body-start", None, sink))
        elif s == "//@before-tail":
            sink = []
            cur.splices.append(("before-tail", None, sink))
        elif s.startswith("//@"):
            raise ExtractError("unknown directive at %s: %s" % (origin, s))
        else:
            if sink is None:
                if s:
                    raise ExtractError("stray line in fn block at %s: %s" % (origin, s))
            else:
                sink.append(line)
    if cur is not None:
        raise ExtractError("unterminated //@fn %s" % cur.id)
    if buf:
        items.append(("text", buf))
    return items


# ---------------------------------------------------------------------------
# rewrite rules

CHAIN_RE = re.compile(
    r"(?P<recv>(?<![\w.])[A-Za-z_][A-Za-z_0-9]*(?:\s*\.\s*node)?)\s*\.\s*inner\s*\.\s*2\s*\.\s*"
    r"(?P<acc>borrow_mut\s*\(\s*\)|borrow\s*\(\s*\)|write\s*\(\s*\)\s*\.\s*unwrap\s*\(\s*\)|read\s*\(\s*\)\s*\.\s*unwrap\s*\(\s*\))")


def enclosing_open(m, pos, lo=0):
    """offset of the innermost bracket opened in m[lo:pos] that is still open at pos, or -1"""
    stack = []
    for i in range(lo, pos):
        c = m[i]
        if c in "([{":
            stack.append(i)
        elif c in ")]}":
            if stack:
                stack.pop()
    return stack[-1] if stack else -1


def stmt_start(m, pos):
    """Scan backwards from pos inside the innermost enclosing brace block to the
    start of the statement / match arm expression containing pos. Returns
    (start_offset, block_open_offset)."""
    p = pos
    while True:
        o = enclosing_open(m, p)
        if o >= 0 and m[o] in "([":
            p = o
            continue
        break
    block_open = o
    i = p - 1
    depth = 0
    while i > block_open:
        c = m[i]
        if c in ")]}":
            # skip balanced group backwards
            d = 1
            closer = c
            if c == "}" and depth == 0:
                # a nested block that ended before us is a statement boundary
                return i + 1, block_open
            i -= 1
            while i > block_open and d:
                if m[i] in ")]}":
                    d += 1
                elif m[i] in "([{":
                    d -= 1
                i -= 1
            continue
        if c == ";":
            return i + 1, block_open
        if c == "," :
            return i + 1, block_open
        if c == ">" and m[i - 1] == "=":
            return i + 1, block_open
        i -= 1
    return block_open + 1, block_open


def stmt_end(m, s0, limit):
    """offset just after the statement that starts at s0 (within the block that closes at `limit`)"""
    i = s0
    while i < limit:
        c = m[i]
        if c in "([":
            i = match_close(m, i) + 1
            continue
        if c == ";":
            return i + 1
        if c == "{":
            j = match_close(m, i)
            rest = m[j + 1:limit]
            mm = re.match(r"\s*else\b", rest)
            if mm:
                i = j + 1 + mm.end()
                continue
            mm = re.match(r"\s*([.?;])", rest)
            if mm:
                if mm.group(1) == ";":
                    return j + 1 + mm.end()
                i = j + 1
                continue
            return j + 1
        i += 1
    return limit


def guard_range(m, start, end):
    """Live range of the guard created by the access chain m[start:end]
    (Rust temporary rules, for the forms used in gdsl).  Returns
    (kind, range_end)."""
    s0, blk = stmt_start(m, start)
    head = m[s0:start]
    hs = head.strip()
    blk_close = match_close(m, blk) if blk >= 0 else len(m)

    def next_semicolon(frm):
        i = frm
        while i < blk_close:
            c = m[i]
            if c in "([{":
                i = match_close(m, i) + 1
                continue
            if c == ";":
                return i
            if c == "," and True:
                # match arm without braces ends at ','
                return i
            i += 1
        return blk_close

    def block_after(frm):
        """offset of the '{' that starts the block following the expression at frm"""
        i = frm
        while i < blk_close:
            c = m[i]
            if c in "([":
                i = match_close(m, i) + 1
                continue
            if c == "{":
                return i
            i += 1
        raise ExtractError("R4b: no block after guard expression")

    if re.match(r"(return\s+)?match\b", hs):
        b = block_after(end)
        return "match-scrutinee", match_close(m, b)
    if re.match(r"(if|while)\s+let\b", hs) or re.match(r"(\}\s*else\s+)?if\s+let\b", hs):
        b = block_after(end)
        e = match_close(m, b)
        # else branches keep the temporary alive as well
        rest = m[e + 1:]
        mm = re.match(r"\s*else\b", rest)
        while mm:
            b2 = block_after(e + 1 + mm.end())
            e = match_close(m, b2)
            rest = m[e + 1:]
            mm = re.match(r"\s*else\b", rest)
        return "if-let-scrutinee", e
    if re.match(r"(if|while)\b", hs):
        b = block_after(end)
        return "condition", b
    if re.match(r"for\b", hs):
        b = block_after(end)
        return "for-iterator", match_close(m, b)
    mm = re.match(r"let\s+(mut\s+)?[A-Za-z_][A-Za-z_0-9]*\s*(:[^=]+)?=\s*(&\s*)?$", hs)
    if mm:
        # initializer starts with the chain
        after = m[end:].lstrip()
        if after.startswith(";"):
            return "let-binding", blk_close
        if mm.group(3):
            raise ExtractError("R4b: unsupported `let x = &guard.method()` form")
        return "let-temporary", next_semicolon(end)
    if hs.startswith("let "):
        return "let-temporary", next_semicolon(end)
    # expression statement or tail expression
    e = next_semicolon(end)
    if e >= blk_close:
        return "tail-expression", blk_close
    return "expression-statement", e


def apply_R4(body, heap_methods, stats, fid):
    """R4 + R4b + R4c on one function body.  Returns new body."""
    m = mask(body)
    chains = []
    for mm in CHAIN_RE.finditer(m):
        recv = norm_ws(body[mm.start("recv"):mm.end("recv")]).replace(" ", "")
        acc = norm_ws(body[mm.start("acc"):mm.end("acc")]).replace(" ", "")
        excl = acc.startswith("borrow_mut") or acc.startswith("write")
        kind, rend = guard_range(m, mm.start(), mm.end())
        chains.append(dict(start=mm.start(), end=mm.end(), recv=recv, excl=excl, kind=kind, rend=rend))
    # guard-bound local names (let x = <chain>;) are adjacency guards, not nodes
    guard_names = set()
    for c in chains:
        if c["kind"] == "let-binding":
            s0, _ = stmt_start(m, c["start"])
            mm = re.match(r"\s*let\s+(?:mut\s+)?([A-Za-z_]\w*)", m[s0:])
            guard_names.add(mm.group(1))
    # calls to heap-taking node-level methods
    calls = []
    for mm in re.finditer(r"\.\s*([A-Za-z_]\w*)\s*\(", m):
        name = mm.group(1)
        if name not in heap_methods:
            continue
        # receiver: identifier chain before the dot
        j = mm.start()
        k = j
        while k > 0 and (m[k - 1].isalnum() or m[k - 1] in "_. \n\t"):
            k -= 1
        recv = re.sub(r"\s*\.\s*", ".", norm_ws(m[k:j]))
        recv = recv.split()[-1] if recv.split() else ""
        if not recv or recv.endswith(")"):
            continue
        # a chain receiver (…inner.2.borrow()) is an Adjacent method call
        if any(c["start"] <= k < c["end"] or (c["end"] <= j and m[c["end"]:j].strip() == "") for c in chains):
            continue
        if m[k - 1:k] == ")":
            continue
        if recv.split(".")[0] in guard_names or re.match(r"itc\d+$", recv):
            continue
        if recv.split(".")[-1] == "nodes":
            continue  # the container's HashMap, not a node or a Graph
        op = mm.end() - 1
        cl = match_close(m, op)
        calls.append(dict(name=name, open=op, close=cl, pos=mm.start(), mode=heap_methods[name]))
    # R4c (UFCS form): Node::name(a, b, ..) of a heap-taking node-level method
    for mm in re.finditer(r"\bNode\s*::\s*([A-Za-z_]\w*)\s*\(", m):
        name = mm.group(1)
        if name not in heap_methods:
            continue
        op = mm.end() - 1
        cl = match_close(m, op)
        if re.search(r",\s*heap\s*$", m[op + 1:cl]):
            continue
        calls.append(dict(name=name, open=op, close=cl, pos=mm.start(), mode=heap_methods[name]))
    edits = []  # (start, end, replacement)

    def keyexpr(recv):
        r = recv.lstrip("&")
        return r + ".k()"

    for c in chains:
        held = [d for d in chains if d is not c and d["start"] < c["start"] < d["rend"] and d["end"] <= c["start"]
                and (d["excl"] or c["excl"])]
        arg = c["recv"] if c["recv"].startswith("&") else "&" + c["recv"]
        fn = "adj_mut" if c["excl"] else "adj"
        # R4d: a shared guard with an extended live range under which the heap is written: snapshot of the cell
        if not c["excl"] and c["kind"] in ("for-iterator", "match-scrutinee", "if-let-scrutinee", "let-binding"):
            wr = [d for d in chains if d is not c and d["excl"] and c["end"] <= d["start"] < c["rend"]]
            wr += [cl for cl in calls if cl["mode"] == "mut" and c["end"] <= cl["pos"] < c["rend"]]
            if wr:
                fn = "adj_snap"
                stats["R4d"] = stats.get("R4d", 0) + 1
        if held:
            stats["R4b-overlap"] = stats.get("R4b-overlap", 0) + 1
            nk = keyexpr(c["recv"])
            hk = " ".join("guard_distinct(%s, %s);" % (nk, keyexpr(d["recv"])) for d in held)
            rep = "{ proof { %s } heap.%s(%s) }" % (hk, fn, arg)
        else:
            rep = "heap.%s(%s)" % (fn, arg)
        if fn == "adj_snap" and c["kind"] != "let-binding":
            # the guard is taken first in its statement: bind the snapshot just before it
            s0, _ = stmt_start(m, c["start"])
            while s0 < c["start"] and m[s0] in " \t\n":
                s0 += 1
            nm = "snap%d" % (len([e for e in edits if e[2].startswith("let snap")]) + 1)
            edits.append((s0, s0, "let %s = %s; " % (nm, rep)))
            rep = nm
        stats["R4"] = stats.get("R4", 0) + 1
        edits.append((c["start"], c["end"], rep))
    for cl in calls:
        under = [d for d in chains if d["end"] <= cl["pos"] < d["rend"] and (d["excl"] or cl["mode"] == "mut")]
        inner = m[cl["open"] + 1:cl["close"]].strip()
        hexpr = "heap"
        if under:
            stats["R4b-call-under-guard"] = stats.get("R4b-call-under-guard", 0) + 1
            hexpr = "{ proof { call_under_guard(); } heap }" if cl["mode"] == "ref" else "{ proof { call_under_guard(); } &mut *heap }"
        rep = (", " if inner else "") + hexpr
        stats["R4c"] = stats.get("R4c", 0) + 1
        edits.append((cl["close"], cl["close"], rep))
    edits.sort(key=lambda e: (e[0], e[1]), reverse=True)
    for a, b, rep in edits:
        body = body[:a] + rep + body[b:]
    return body, [dict(recv=c["recv"], excl=c["excl"], kind=c["kind"]) for c in chains]


RUST_KW = set("""as break const continue crate else enum extern false fn for if impl in let loop match mod move mut pub ref return self Self
static struct super trait true type unsafe use where while async await dyn""".split())
TOK_RX = re.compile(r"[A-Za-z_]\w*|\d[\w.]*|\"(?:[^\"\\]|\\.)*\"|'(?:[^'\\]|\\.)'|\S")


def rust_tokens(text):
    return TOK_RX.findall(mask_comments(text))


def mask_comments(text):
    text = re.sub(r"/\*.*?\*/", " ", text, flags=re.S)
    return re.sub(r"//[^\n]*", " ", text)


def rename_map(old_text, new_text, body_off=0):
    """Local identifiers that were renamed between the baseline text of a function and its current text (R19).
    Returns (base, scoped): `base` maps old -> new for identifiers renamed the same way everywhere; `scoped` maps a loop
    ordinal (numbering of find_loops on the new body) to the renames that hold inside that loop only (a shadowing loop
    variable renamed differently from the outer variable of the same name).  A rename is accepted when the aligned token
    sequences pair the two names, the old name no longer occurs in the new text, the new name did not occur in the old
    text, and neither is a keyword or a method / field name (preceded by `.` or `::`)."""
    import difflib
    ta = [(mm.group(0), mm.start()) for mm in TOK_RX.finditer(mask_comments(old_text))]
    tb = [(mm.group(0), mm.start()) for mm in TOK_RX.finditer(mask_comments(new_text))]
    a = [t for t, _ in ta]
    b = [t for t, _ in tb]
    if a == b:
        return {}, {}
    try:
        loops = find_loops(mask(new_text[body_off:]))
    except ExtractError:
        loops = []

    def scope_of(off):
        o = off - body_off
        best = 0
        for k, lp in enumerate(loops, 1):
            inside = lp["hdr_end"] < o < lp["body_close"]
            if not inside and lp["kw"] == "for" and lp["start"] <= o <= lp["hdr_end"]:
                mi = re.search(r"\bin\b", new_text[body_off + lp["start"]:body_off + lp["hdr_end"]])
                inside = bool(mi) and o < lp["start"] + mi.start()
            if inside:
                best = k        # loops are in text order, so the last hit is the innermost
        return best

    sm = difflib.SequenceMatcher(None, a, b, autojunk=False)
    occ = {}   # old -> {scope: set(new)}
    for tag, i1, i2, j1, j2 in sm.get_opcodes():
        if tag != "replace" or (i2 - i1) != (j2 - j1):
            continue
        for k in range(i2 - i1):
            o, n = a[i1 + k], b[j1 + k]
            if o == n:
                continue
            if not (re.match(r"[A-Za-z_]\w*$", o) and re.match(r"[A-Za-z_]\w*$", n)) or o in RUST_KW or n in RUST_KW:
                continue
            prev = a[i1 + k - 1] if i1 + k > 0 else ""
            if prev in (".", ":"):
                continue
            # a macro name is not a local (`write!` -> `writeln!`)
            if (i1 + k + 1 < len(a) and a[i1 + k + 1] == "!") or (j1 + k + 1 < len(b) and b[j1 + k + 1] == "!"):
                continue
            occ.setdefault(o, {}).setdefault(scope_of(tb[j1 + k][1]), set()).add(n)
    # occurrences as a method / field / path segment (`.key()`, `Self::key`) do not count as uses of a local of that name
    def free_names(toks):
        return {t for i, t in enumerate(toks) if not (i > 0 and toks[i - 1] in (".", ":"))}
    sa, sb = free_names(a), free_names(b)
    base, scoped = {}, {}
    used_new = {}
    for o, by_scope in occ.items():
        news = set().union(*by_scope.values())
        if o in sb or any(n in sa for n in news) or any(len(v) != 1 for v in by_scope.values()):
            continue
        if len(news) == 1:
            base[o] = next(iter(news))
        else:
            # the most frequent outermost choice is the base; the others are scoped to their loops
            outer = min(by_scope)
            base[o] = next(iter(by_scope[outer]))
            for sc, v in by_scope.items():
                n = next(iter(v))
                if n != base[o]:
                    scoped.setdefault(sc, {})[o] = n
    # two old names must not collapse into one new name
    vals = list(base.values())
    for o in [o for o, n in base.items() if vals.count(n) != 1]:
        del base[o]
    return base, scoped


def loop_chain(loops, pos):
    """ordinals of the loops whose body contains offset pos, innermost first"""
    ch = [k for k, lp in enumerate(loops, 1) if lp["hdr_end"] < pos <= lp["body_close"]]
    return list(reversed(ch))


def apply_scoped(lines, scoped, chain, base):
    """inside the loops of `chain` the base rename of a shadowed name is replaced by the loop's own rename"""
    for k in chain:
        mp = scoped.get(k)
        if not mp:
            continue
        # the annotation text was already renamed with `base`; redo those names with the scoped choice
        inv = {base.get(o, o): n for o, n in mp.items()}
        lines = apply_renames(lines, inv)
        break
    return lines


def apply_renames(lines, rmap):
    if not rmap:
        return lines
    rx = re.compile(r"(?<![\w.])(%s)\b" % "|".join(map(re.escape, sorted(rmap, key=len, reverse=True))))
    return [rx.sub(lambda mm: rmap[mm.group(1)], l) for l in lines]


def apply_R5(text, stats):
    rx = re.compile(r"for\s*\(\s*(\w+)\s*,\s*(\w+)\s*\)\s*in\s+([\w\.]+?)\s*\.\s*iter\s*\(\s*\)\s*\.\s*enumerate\s*\(\s*\)\s*\{")

    def rep(mm):
        stats["R5"] = stats.get("R5", 0) + 1
        return "for %s in 0..%s.len() { let %s = &%s[%s];" % (mm.group(1), mm.group(3), mm.group(2), mm.group(3), mm.group(1))
    return rx.sub(rep, text)


def apply_R7(text, stats):
    m = mask(text)
    out = text
    for mm in reversed(list(re.finditer(r"(?<![\w])panic!\s*\(", m))):
        op = mm.end() - 1
        cl = match_close(m, op)
        stats["R7"] = stats.get("R7", 0) + 1
        out = out[:mm.start()] + "unreachable_panic()" + out[cl + 1:]
    return out


def apply_R9(body, stats):
    """`for PAT in RECV.iter_out() { BODY }` -> explicit iterator + loop/match (the compiler's own
    desugaring), in functions that mutate the heap: `next` must see the current heap."""
    while True:
        m = mask(body)
        mm = re.search(r"(?<![\w])for\s+(?P<pat>[^;{}]+?)\s+in\s+(?P<recv>[A-Za-z_][\w\.]*)\s*\.\s*(?P<meth>iter_out|iter_in|iter)\s*\(\s*\)\s*\{", m)
        if not mm:
            return body
        bo = mm.end() - 1
        bc = match_close(m, bo)
        n = stats.get("R9", 0) + 1
        stats["R9"] = n
        # ordinal of this loop in text order = number of loop keywords before it + 1
        ordinal = len(re.findall(r"(?<![\w'])(?:for|while|loop)\b", m[:mm.start()])) + 1
        it = "it%d" % ordinal
        inner = body[bo + 1:bc]
        rep = ("let mut %s = %s.%s(); loop { match %s.next() { Some(%s) => {%s /*@LBE%d*/ } None => break, } }"
               % (it, body[mm.start("recv"):mm.end("recv")], mm.group("meth"), it, body[mm.start("pat"):mm.end("pat")], inner, ordinal))
        body = body[:mm.start()] + rep + body[bc + 1:]



def apply_R15(body, stats):
    """`continue` in tail position of a for-loop body (Verus: "for-loops do not yet support
    continue") -> `{}`.  Tail position: nothing but closing braces / commas follows up to the end
    of the loop body.  Any other `continue` inside a `for` is left alone (Verus rejects it -> exit 2)."""
    m = mask(body)
    loops = [l for l in find_loops(m) if l["kw"] == "for"]
    edits = []
    for mm in re.finditer(r"(?<![\w])continue\b", m):
        encl = [l for l in loops if l["hdr_end"] < mm.start() < l["body_close"]]
        if not encl:
            continue
        l = max(encl, key=lambda x: x["hdr_end"])
        rest = m[mm.end():l["body_close"]]
        if re.fullmatch(r"[\s,;}]*", rest):
            edits.append((mm.start(), mm.end()))
    for a, b in reversed(edits):
        body = body[:a] + "{}" + body[b:]
        stats["R15"] = stats.get("R15", 0) + 1
    return body


def apply_R15b(body, stats):
    """guard clause in a for-loop body: `if C { continue; }` as a statement directly in the loop body -> the rest of the
    body is wrapped in `if !(C) { .. }` (Verus: "for-loops do not yet support continue").  Repeats until none is left."""
    while True:
        m = mask(body)
        loops = [l for l in find_loops(m) if l["kw"] == "for"]
        done = True
        for mm in re.finditer(r"(?<![\w])if\b", m):
            encl = [l for l in loops if l["hdr_end"] < mm.start() < l["body_close"]]
            if not encl:
                continue
            l = max(encl, key=lambda x: x["hdr_end"])
            # directly in the loop body: the innermost open brace before the `if` is the loop's
            if enclosing_open(m, mm.start()) != l["hdr_end"]:
                continue
            # condition up to the block
            i = mm.end()
            while i < len(m) and m[i] != "{":
                if m[i] in "([":
                    i = match_close(m, i)
                i += 1
            if i >= len(m):
                continue
            close = match_close(m, i)
            inner = m[i + 1:close]
            mc = re.fullmatch(r"(.*?)(?<![\w])continue\s*;?\s*", inner, re.S)
            if not mc:
                continue
            if re.match(r"\s*else\b", m[close + 1:]):
                continue
            if re.match(r"\s*let\b", m[mm.end():i]):
                continue   # `if let` guard: not a boolean condition
            cond = body[mm.end():i].strip()
            rest = body[close + 1:l["body_close"]]
            pre = body[i + 1:i + 1 + len(mc.group(1))]
            if pre.strip() == "":
                body = body[:mm.start()] + "if !(" + cond + ") {" + rest + "}\n" + body[l["body_close"]:]
            else:
                # `if c { stmts; continue; } rest`  ->  `if c { stmts } else { rest }`
                if re.search(r"(?<![\w])continue\b", mask(pre)):
                    continue
                body = body[:mm.start()] + "if " + cond + " {" + pre + "} else {" + rest + "}\n" + body[l["body_close"]:]
            stats["R15b"] = stats.get("R15b", 0) + 1
            done = False
            break
        if done:
            return body


def apply_R15d(body, stats):
    """`let x = match E { P => v, Q => continue, };` directly in a for-loop body -> `match E { P => { let x = v; REST } Q => {} }`
    (two arms, one of them `continue`)."""
    while True:
        m = mask(body)
        loops = [l for l in find_loops(m) if l["kw"] == "for"]
        done = True
        for mm in re.finditer(r"(?<![\w])let\s+((?:mut\s+)?[A-Za-z_]\w*)\s*=\s*match\b", m):
            encl = [l for l in loops if l["hdr_end"] < mm.start() < l["body_close"]]
            if not encl:
                continue
            l = max(encl, key=lambda x: x["hdr_end"])
            if enclosing_open(m, mm.start()) != l["hdr_end"]:
                continue
            i = mm.end()
            while i < len(m) and m[i] != "{":
                if m[i] in "([":
                    i = match_close(m, i)
                i += 1
            if i >= len(m):
                continue
            close = match_close(m, i)
            semi = re.match(r"\s*;", m[close + 1:])
            if not semi:
                continue
            arms = body[i + 1:close]
            am = re.fullmatch(r"\s*(?P<p1>[^=]+?)\s*=>\s*(?P<v1>[^,{}]+?)\s*,\s*(?P<p2>[^=]+?)\s*=>\s*continue\s*,?\s*", arms, re.S) \
                or re.fullmatch(r"\s*(?P<p2>[^=]+?)\s*=>\s*continue\s*,\s*(?P<p1>[^=]+?)\s*=>\s*(?P<v1>[^,{}]+?)\s*,?\s*", arms, re.S)
            if not am:
                continue
            scrut = body[mm.end():i].strip()
            rest = body[close + 1 + semi.end():l["body_close"]]
            new = "match %s { %s => { let %s = %s; %s } %s => {} }\n" % (scrut, am.group("p1").strip(), mm.group(1), am.group("v1").strip(), rest, am.group("p2").strip())
            body = body[:mm.start()] + new + body[l["body_close"]:]
            stats["R15d"] = stats.get("R15d", 0) + 1
            done = False
            break
        if done:
            return body


def apply_R7b(body, stats):
    """serde error payloads built with format! are replaced by an opaque message (string formatting is out
    of the verifier's reach): `de::Error::custom(<anything>)` -> `err_msg()`, and a closure `|| { err_msg() }`
    gets the result annotation Verus needs."""
    while True:
        m = mask(body)
        mm = re.search(r"(?<![\w:])de\s*::\s*Error\s*::\s*custom\s*\(", m)
        if not mm:
            break
        op = mm.end() - 1
        cl = match_close(m, op)
        body = body[:mm.start()] + "err_msg()" + body[cl + 1:]
        stats["R7b"] = stats.get("R7b", 0) + 1
    body = re.sub(r"\|\|\s*\{\s*err_msg\(\)\s*\}", "|| -> (e: ErrMsg) { err_msg() }", body)
    return body


def split_args(masked, text):
    """top-level comma split of an argument list text (masked: same length, literals blanked)"""
    parts, depth, start = [], 0, 0
    for i, c in enumerate(masked):
        if c in "([{":
            depth += 1
        elif c in ")]}":
            depth -= 1
        elif c == "," and depth == 0:
            parts.append(text[start:i])
            start = i + 1
    last = text[start:]
    if last.strip():
        parts.append(last)
    return [x.strip() for x in parts]


def fmt_pieces(lit):
    """a format string literal (source text incl. quotes) -> list of ('lit', source text of the piece) / ('arg',) in
    order.  Only `{}` placeholders and the escapes `{{` `}}` are accepted; anything else is outside the rule."""
    if not (len(lit) >= 2 and lit[0] == '"' and lit[-1] == '"'):
        raise ExtractError("R20: format string is not a plain string literal: %s" % lit[:40])
    inner = lit[1:-1]
    out, cur, i = [], "", 0
    while i < len(inner):
        c = inner[i]
        if c == "\\":
            cur += inner[i:i + 2]
            i += 2
            continue
        if c == "{":
            if inner[i:i + 2] == "{{":
                cur += "{"
                i += 2
                continue
            if inner[i:i + 2] == "{}":
                out.append(("lit", cur))
                out.append(("arg",))
                cur = ""
                i += 2
                continue
            raise ExtractError("R20: unsupported placeholder in format string %s" % lit[:40])
        if c == "}":
            if inner[i:i + 2] == "}}":
                cur += "}"
                i += 2
                continue
            raise ExtractError("R20: stray `}` in format string %s" % lit[:40])
        cur += c
        i += 1
    out.append(("lit", cur))
    return out


def apply_R20(sig, body, stats):
    """R20 (functions marked //@text): a String under construction is the shim DotText (its character sequence);
    `write!(&mut s, FMT, a, ..).unwrap()`, `writeln!`, `s.push_str(&format!(FMT, a, ..))` and a free-standing
    `format!(FMT, a, ..)` are split at the `{}` placeholders of the literal FMT into `push_str(piece)` /
    `push_disp(&(a))` calls in order (what the macros expand to: the pieces and `Display::fmt` of each argument by
    reference).  Named / positional / formatted placeholders are outside the rule (ExtractError)."""
    n = 0

    def seq_for(recv, lit, args, newline=False):
        pcs = fmt_pieces(lit)
        if sum(1 for x in pcs if x[0] == "arg") != len(args):
            raise ExtractError("R20: %d placeholders, %d arguments" % (sum(1 for x in pcs if x[0] == "arg"), len(args)))
        if newline:
            pcs.append(("lit", "\\n"))
        calls, ai = [], 0
        # adjacent literal pieces are merged
        merged = []
        for x in pcs:
            if x[0] == "lit" and merged and merged[-1][0] == "lit":
                merged[-1] = ("lit", merged[-1][1] + x[1])
            else:
                merged.append(x)
        for x in merged:
            if x[0] == "lit":
                if x[1]:
                    calls.append('%s.push_str("%s");' % (recv, x[1]))
            else:
                calls.append("%s.push_disp(&(%s));" % (recv, args[ai]))
                ai += 1
        return " ".join(calls)

    def macro_at(m, text, pos):
        """text[pos] is the `(` of a macro call: -> (end offset after `)`, argument texts)"""
        close = match_close(m, pos)
        return close + 1, split_args(m[pos + 1:close], text[pos + 1:close])

    while True:
        m = mask(body)
        mm = re.search(r"\b(writeln|write)!\s*\(", m)
        if mm is None:
            break
        end, args = macro_at(m, body, mm.end() - 1)
        tail = re.match(r"\s*\.\s*unwrap\(\)\s*;", m[end:])
        rc = re.match(r"&mut\s+([A-Za-z_]\w*)$", args[0]) if args else None
        if tail is None or rc is None or len(args) < 2:
            raise ExtractError("R20: write! outside the accepted form `write!(&mut s, \"..\", args).unwrap();`")
        body = body[:mm.start()] + seq_for(rc.group(1), args[1], args[2:], mm.group(1) == "writeln") + body[end + tail.end():]
        n += 1
    while True:
        m = mask(body)
        mm = re.search(r"\b([A-Za-z_]\w*)\s*\.\s*push_str\(\s*&\s*format!\s*\(", m)
        if mm is None:
            break
        end, args = macro_at(m, body, mm.end() - 1)
        tail = re.match(r"\s*\)\s*;", m[end:])
        if tail is None or not args:
            raise ExtractError("R20: push_str(&format!(..)) outside the accepted statement form")
        body = body[:mm.start()] + seq_for(mm.group(1), args[0], args[1:]) + body[end + tail.end():]
        n += 1
    k = 0
    while True:
        m = mask(body)
        mm = re.search(r"\bformat!\s*\(", m)
        if mm is None:
            break
        end, args = macro_at(m, body, mm.end() - 1)
        if not args:
            raise ExtractError("R20: format! without a format string")
        k += 1
        body = body[:mm.start()] + "{ let mut f20_%d = DotText::new(); %s f20_%d }" % (k, seq_for("f20_%d" % k, args[0], args[1:]), k) + body[end:]
        n += 1
    # normal form of the literal pieces: a pushed char literal is the one-character string literal, and string literals
    # pushed by consecutive statements onto the same receiver are one literal (so the grouping of the text into
    # literals / format strings does not matter within a straight-line run)
    def char_to_str(mm):
        c = mm.group(2)
        c = {'"': '\\"', "\\'": "'"}.get(c, c)
        return '%s.push_str("%s")' % (mm.group(1), c)
    body = re.sub(r"\b([A-Za-z_]\w*)\s*\.\s*push\(\s*'((?:\\.|[^'\\])+)'\s*\)", char_to_str, body)
    rxm = re.compile(r'\b([A-Za-z_]\w*)\.push_str\("((?:\\.|[^"\\])*)"\);\s*\1\.push_str\("((?:\\.|[^"\\])*)"\);')
    while True:
        body2 = rxm.sub(lambda mm: '%s.push_str("%s%s");' % (mm.group(1), mm.group(2), mm.group(3)), body, count=1)
        if body2 == body:
            break
        body = body2
    n += len(re.findall(r"\bString::new\(\)", mask(body)))
    body = re.sub(r"\bString::new\(\)", "DotText::new()", body)
    sig2 = re.sub(r"->\s*String\b", "-> DotText", sig)
    if sig2 != sig:
        n += 1
    if n:
        stats["R20"] = stats.get("R20", 0) + n
    return sig2, body


def apply_R15c(body, stats):
    """bare mode only: a `for` loop whose body still contains `continue` (rejected by Verus) is
    desugared to `let mut it = EXPR.into_iter(); loop { match it.next() { Some(PAT) => {BODY} None => break } }`"""
    for _ in range(8):
        m = mask(body)
        target = None
        for lp in find_loops(m):
            if lp["kw"] != "for":
                continue
            inner = m[lp["hdr_end"]:lp["body_close"]]
            if re.search(r"(?<![\w])continue\b", inner):
                target = lp
        if not target:
            return body
        hdr = body[target["start"]:target["hdr_end"]]
        mm = re.match(r"for\s+(.*?)\s+in\s+(.*)$", hdr.strip(), re.S)
        if not mm:
            return body
        k = stats.get("R15c", 0) + 1
        stats["R15c"] = k
        rep = "let mut itc%d = (%s).into_iter(); loop { match itc%d.next() { Some(%s) => {%s} None => break, } }" % (
            k, mm.group(2).strip(), k, mm.group(1).strip(), body[target["hdr_end"] + 1:target["body_close"]])
        body = body[:target["start"]] + rep + body[target["body_close"] + 1:]
    return body


def find_loops(m):
    """offsets of loop keywords in text order with their header end ('{')"""
    res = []
    for mm in re.finditer(r"(?<![\w'])(for|while|loop)\b", m):
        kw = mm.group(1)
        i = mm.end()
        n = len(m)
        while i < n and m[i] != "{":
            if m[i] in "([":
                i = match_close(m, i)
            i += 1
        if i >= n:
            raise ExtractError("loop without body")
        res.append(dict(kw=kw, start=mm.start(), hdr_end=i, body_close=match_close(m, i)))
    return res


def tail_start(m):
    """offset where the tail expression of a function body starts (after the last
    top-level ';' or '}' that ends a statement)"""
    i = 0
    n = len(m)
    last = 0
    while i < n:
        c = m[i]
        if c in "([":
            i = match_close(m, i) + 1
            continue
        if c == "{":
            j = match_close(m, i)
            # a block followed by only whitespace => it is the tail itself
            if m[j + 1:].strip() == "":
                return last
            # block statement (if/for/while/match): boundary unless followed by '.', '?' or `else`
            rest = m[j + 1:].lstrip()
            i = j + 1
            if rest[:1] not in ".?" and not re.match(r"else\b", rest):
                # could still be the scrutinee braces of `match x {..}` used as expression statement
                last = i
            continue
        if c == ";":
            last = i + 1
        i += 1
    return last


def normalise(text):
    return norm_ws(text)


def text_hash(sig, body):
    return hashlib.sha256(normalise(sig + "{" + body + "}").encode()).hexdigest()[:16]


class Generated:
    def __init__(self):
        self.lines = []
        self.fns = []       # dict per extracted function
        self.linemap = []   # (gen_line_start, gen_line_end, fn id)
        self.stats = {}


def rewrite_sig(sig, blk, heap_param):
    """`pub fn f(args) -> T where ..` -> `pub fn f(args, heap: ..) -> (r: T) where ..`"""
    m = mask(sig)
    mm = re.search(r"\bfn\s+\w+", m)
    i = mm.end()
    # generics
    if m[i:].lstrip().startswith("<"):
        i = m.index("<", i)
        d = 0
        while True:
            if m[i] == "<":
                d += 1
            elif m[i] == ">" and m[i - 1] != "-":
                d -= 1
                if d == 0:
                    i += 1
                    break
            i += 1
    po = m.index("(", i)
    pc = match_close(m, po)
    params = sig[po + 1:pc].strip().rstrip(",")
    if heap_param:
        params = (params + ", " if params else "") + heap_param
    rest = sig[pc + 1:]
    mrest = m[pc + 1:]
    ret = None
    where = ""
    wm = re.search(r"\bwhere\b", mrest)
    if wm:
        where = rest[wm.start():].strip()
        rest = rest[:wm.start()]
    am = re.search(r"->", rest)
    if am:
        ret = rest[am.end():].strip()
    head = sig[:po]
    vis = "" if (re.match(r"\s*pub\b", head) or blk.trait_impl) else "pub "
    out = vis + norm_ws(head) + "(" + norm_ws(params) + ")"
    if ret:
        out += " -> (%s: %s)" % (blk.ret, norm_ws(ret))
    if where:
        # R2: the Display bound is dropped
        w = norm_ws(where)
        for bound in ("Display", "Serialize"):
            w = re.sub(r"\+\s*%s\b" % bound, "", w)
            w = re.sub(r"\b%s\s*\+\s*" % bound, "", w)
            # a predicate whose only bound it is goes altogether (`N: Display,`)
            w = re.sub(r"\b[A-Za-z_]\w*\s*:\s*%s\s*(,|$)" % bound, "", w)
        if norm_ws(w).strip() != "where":
            out += "\n    " + norm_ws(w)
    return out


def generate(template_path, flavour, repo="/repo", vacuity=False, rules=None, bare=None, base_texts=None):
    fl = FLAVOURS[flavour]
    lines = preprocess(template_path, flavour)
    items = parse_template(lines, flavour)
    g = Generated()
    blocks = [b for k, b in items if k == "fn"]
    heap_methods = {b.name: b.heap for b in blocks if b.heap != "none" and not b.id.startswith("Adjacent::")}
    # extra heap-taking shim methods declared by the template
    for k, b in items:
        if k == "text":
            for ln in b:
                mm = re.match(r"\s*//@heap-method\s+(\w+)\s+(ref|mut)", ln)
                if mm:
                    heap_methods[mm.group(1)] = mm.group(2)
    global_rw = []
    for k, b in items:
        if k == "text":
            for ln in b:
                mm = re.match(r"\s*//@global-rewrite\s+(\S+)\s+`(.*?)`\s*=>\s*`(.*)`\s*$", ln)
                if mm:
                    global_rw.append((mm.group(1), mm.group(2), mm.group(3)))
    out = []
    for kind, b in items:
        if kind == "text":
            for ln in b:
                if ln.strip().startswith("//@heap-method") or ln.strip().startswith("//@global-rewrite"):
                    continue
                out.append(ln)
            continue
        path = os.path.join(repo, b.file)
        if not os.path.exists(path):
            raise ExtractError("missing file %s" % b.file)
        src = open(path).read()
        if b.region:
            ex = extract_region(b.file, src, b.region[0], b.region[1], b.region[2])
            stats_r11 = True
        else:
            try:
                ex = extract_fn(b.file, src, b.impl, b.name)
            except ExtractError:
                if b.optional:
                    continue
                raise
            stats_r11 = False
        sig, body = ex["sig"], ex["body"]
        h = text_hash(sig, body)
        stats = {}
        real_text = sig + "\n" + body
        # R19: locals renamed with respect to the baseline text are renamed in the proof annotations as well
        rmap, rscoped = {}, {}
        if base_texts is not None:
            old_text = base_texts.get("%s/%s/%s" % (os.path.splitext(os.path.basename(template_path))[0], flavour, b.id))
            if old_text is not None and old_text != real_text:
                rmap, rscoped = rename_map(old_text, real_text, body_off=len(sig) + 1)
        if rmap:
            stats["R19"] = len(rmap) + sum(len(v) for v in rscoped.values())
            b.spec = apply_renames(b.spec, rmap)
            b.loops = {n: apply_renames(ls, rmap) for n, ls in b.loops.items()}
            nsp = []
            for where, pat, slines in b.splices:
                if isinstance(pat, tuple):
                    pat = (apply_renames(list(pat[0]), rmap), pat[1], pat[2])
                elif isinstance(pat, list):
                    pat = apply_renames(pat, rmap)
                nsp.append((where, pat, apply_renames(slines, rmap)))
            b.splices = nsp
            b.rewrites = [(sc, apply_renames([frm], rmap)[0], apply_renames([to], rmap)[0], opt) for sc, frm, to, opt in b.rewrites]
            b.closures = [(apply_renames([hd], rmap)[0], apply_renames([an], rmap)[0]) for hd, an in b.closures]
        # R1 attributes inside bodies do not occur; doc comments were dropped by extraction
        # R3: nothing to do inside bodies
        # function specific rewrites first (they are written against the /repo text)
        rewrites_lost = []
        # R6: annotate a closure head and wrap its (unchanged) body expression in a block
        for head, ann in b.closures:
            rxh = re.compile(pat_to_regex(head))
            mb = mask(body)
            hits = list(rxh.finditer(mb))
            if len(hits) != 1:
                rewrites_lost.append("closure `%s` matched %d times" % (head, len(hits)))
                continue
            hm = hits[0]
            i = hm.end()
            depth = 0
            j = i
            while j < len(mb):
                c = mb[j]
                if c in "([{":
                    j = match_close(mb, j) + 1
                    continue
                if c in ")]}" or (c == "," and depth == 0):
                    break
                j += 1
            expr = body[i:j].strip()
            if expr.startswith("{"):
                body = body[:hm.start()] + ann + " " + body[i:]
            else:
                body = body[:hm.start()] + ann + " { " + expr + " }" + body[j:]
            stats["R6"] = stats.get("R6", 0) + 1
        for scope, frm, to, optional in b.rewrites:
            rx = re.compile(pat_to_regex(frm))
            tgt = sig if scope == "sig" else None
            if scope == "sig":
                n = len(rx.findall(sig))
                if n != 1 and not (optional and n == 0):
                    rewrites_lost.append("sigrewrite `%s` matched %d times" % (frm, n))
                    continue
                sig = rx.sub(lambda _m: to, sig)
            else:
                n = len(rx.findall(sig)) + len(rx.findall(body))
                if optional == "all":
                    if n < 1:
                        rewrites_lost.append("rewrite-all `%s` matched 0 times" % frm)
                elif n != 1 and not (optional and n == 0):
                    rewrites_lost.append("rewrite `%s` matched %d times" % (frm, n))
                    n = 0
                    continue
                sig = rx.sub(lambda _m: to, sig)
                body = rx.sub(lambda _m: to, body)
            if n:
                stats["Rx-specific"] = stats.get("Rx-specific", 0) + 1
        for rname, frm, to in global_rw:
            rx = re.compile(pat_to_regex(frm))
            n = len(rx.findall(sig)) + len(rx.findall(body))
            if n:
                sig = rx.sub(lambda _m: to, sig)
                body = rx.sub(lambda _m: to, body)
                stats[rname] = stats.get(rname, 0) + n
        # R16: pointer identity of two node handles -> the shim Node::same_cell (same allocation ==> same key)
        rx16 = re.compile(r"\b(?:Rc|Arc)::ptr_eq\(\s*&\s*([\w\.]+?)\.inner\s*,\s*&\s*([\w\.]+?)\.inner\s*\)")
        n16 = len(rx16.findall(body))
        if n16:
            body = rx16.sub(lambda mm: "%s.same_cell(&%s)" % (mm.group(1), mm.group(2)), body)
            stats["R16"] = stats.get("R16", 0) + n16
        # R13c: ahash containers are the std containers with another hasher (the hasher is not modelled)
        rx13c = re.compile(r"\b(?:ahash|std::collections|hashbrown)::(?:A?Hash(Set|Map))\b")
        n13 = len(rx13c.findall(body))
        if n13:
            body = rx13c.sub(lambda mm: "Hash" + mm.group(1), body)
            body = re.sub(r"\bHashSet::(default|new)\(\)", r"HashSet::<_, std::hash::RandomState>::\1()", body)
            body = re.sub(r"\bHashMap::(default|new)\(\)", r"HashMap::<_, _, std::hash::RandomState>::\1()", body)
            stats["R13c"] = stats.get("R13c", 0) + n13
        # R13c also for the imported names: the files import ahash's aliases (fixed hasher), the templates std's tables
        # (hasher parameter free), so a bare `HashMap::default()` / `HashSet::default()` needs the hasher spelled out
        n13d = len(re.findall(r"(?<![\w:])Hash(?:Set|Map)::default\(\)", mask(body)))
        if n13d:
            body = re.sub(r"(?<![\w:])HashSet::default\(\)", "HashSet::<_, std::hash::RandomState>::default()", body)
            body = re.sub(r"(?<![\w:])HashMap::default\(\)", "HashMap::<_, _, std::hash::RandomState>::default()", body)
            stats["R13c"] = stats.get("R13c", 0) + n13d
        # R17: `g[&k]` (Index<&K> of the Graph container; slices are never indexed by reference) -> g.index(&k)
        rx17 = re.compile(r"\b([A-Za-z_]\w*)\[\s*&\s*([A-Za-z_][\w\.]*)\s*\]")
        n17 = len(rx17.findall(mask(body)))
        if n17 and b.id not in ("Graph::index", "Graph::index_val"):
            body = rx17.sub(lambda mm: "%s.index(&%s)" % (mm.group(1), mm.group(2)), body)
            stats["R17"] = stats.get("R17", 0) + n17
        # R12: the targets of an edge list through an iterator adapter chain -> the shim targets_of(&edges)
        rx12e = re.compile(r"\b([\w\.]+)\s*\.\s*extend\(\s*([\w\.]+)\s*\.\s*iter\(\)\s*\.\s*map\(\s*\|\s*Edge\(\s*_\s*,\s*(\w+)\s*,\s*_\s*\)\s*\|\s*\3\s*\.\s*clone\(\)\s*\)\s*\)")
        rx12c = re.compile(r"\b([\w\.]+)\s*\.\s*iter\(\)\s*\.\s*map\(\s*\|\s*Edge\(\s*_\s*,\s*(\w+)\s*,\s*_\s*\)\s*\|\s*\2\s*\.\s*clone\(\)\s*\)\s*\.\s*collect\(\)")
        n12 = len(rx12e.findall(body)) + len(rx12c.findall(body))
        if n12:
            body = rx12e.sub(lambda mm: "{ let mut r12_ = targets_of(&%s); %s.append(&mut r12_); }" % (mm.group(2), mm.group(1)), body)
            body = rx12c.sub(lambda mm: "targets_of(&%s)" % mm.group(1), body)
            stats["R12"] = stats.get("R12", 0) + n12
        # R18: the set-exclusion filter closure handed to a traversal builder -> the shim filter_excl(&set) (the closure tests
        # the edge's target) resp. filter_excl_src(&set) (it tests the edge's source)
        rx18 = re.compile(r"\.\s*filter\(\s*&mut\s*\|\s*Edge\(\s*(\w+)\s*,\s*(\w+)\s*,\s*_\s*\)\s*\|\s*!\s*(\w+)\s*\.\s*contains\(\s*(\w+)\s*\.\s*key\(\)\s*\)\s*\)")

        def rep18(mm):
            u, v, st, x = mm.group(1), mm.group(2), mm.group(3), mm.group(4)
            if x == v and v != "_" and u == "_":
                return ".filter_excl(&%s)" % st
            if x == u and u != "_" and v == "_":
                return ".filter_excl_src(&%s)" % st
            return mm.group(0)
        body18 = rx18.sub(rep18, body)
        if body18 != body:
            stats["R18"] = stats.get("R18", 0) + len(rx18.findall(body))
            body = body18
        # R14: `mut self` receiver (unsupported by Verus) -> `self` + `let mut slf = self;`
        if re.search(r"\(\s*mut\s+self\b", mask(sig)):
            sig = re.sub(r"\(\s*mut\s+self\b", "(self", sig, count=1)
            body = "\n        let mut slf = self;" + re.sub(r"(?<![\w.])self\b", "slf", body)
            stats["R14"] = stats.get("R14", 0) + 1
        if b.text:
            sig, body = apply_R20(sig, body, stats)
        body = apply_R5(body, stats)
        body = apply_R15d(body, stats)
        body = apply_R15b(body, stats)
        body = apply_R15(body, stats)
        if bare and b.id in bare:
            body = apply_R15c(body, stats)
        body = apply_R7(body, stats)
        body = apply_R7b(body, stats)
        guards = []
        # R4e: a local alias of a node's adjacency cell (`let x = &n.inner.2;`) is replaced by the cell expression itself,
        # so that the access chains of R4 are seen (a place expression without side effects)
        skip4e = set()
        while True:
            mm = next((x for x in re.finditer(r"let\s+([A-Za-z_]\w*)\s*=\s*&\s*([\w\.]+?)\s*\.\s*inner\s*\.\s*2\s*;", mask(body)) if x.group(1) not in skip4e), None)
            if mm is None:
                break
            al, recv = mm.group(1), mm.group(2)
            rest = body[:mm.start()] + body[mm.end():]
            if re.search(r"(?<![\w.])%s\b(?!\s*\.\s*(borrow|borrow_mut|read|write)\s*\()" % re.escape(al), mask(rest)):
                skip4e.add(al)   # used in some other way: leave it alone
                continue
            body = re.sub(r"(?<![\w.])%s\b" % re.escape(al), "%s.inner.2" % recv, rest)
            stats["R4e"] = stats.get("R4e", 0) + 1
        if b.heap == "mut":
            body = apply_R9(body, stats)
        if b.heap != "none" or CHAIN_RE.search(mask(body)):
            if b.heap == "none":
                raise GuardEscape(b.id, "%s: adjacency guard created in a function that takes no heap (its guard would outlive the call: R4b guard-escape)" % b.id)
            body, guards = apply_R4(body, heap_methods, stats, b.id)
        # loops: labels + specs
        m = mask(body)
        loops = find_loops(m)
        edits = []
        pending_loop_specs = []
        for idx, lp in enumerate(loops, 1):
            if lp["kw"] == "for" and not b.nolabel and not (bare and b.id in bare):
                im = re.search(r"\bin\b", m[lp["start"]:lp["hdr_end"]])
                pos = lp["start"] + im.end()
                edits.append((pos, pos, " it%d:" % idx, 0))
                stats["R10-label"] = stats.get("R10-label", 0) + 1
            if idx in b.loops:
                pending_loop_specs.append((idx, lp))
        lost = []
        inexact = []  # hints that were placed, but not exactly where they were written for
        placed = []   # (offset, text, slines, order)
        is_bare = bool(bare and b.id in bare)
        for sidx, (where, pat, slines) in enumerate([] if is_bare else b.splices):
            txt = "\n" + "\n".join((l + " /*@H*/") if l.strip() else l for l in slines) + "\n"
            pos = None
            try:
                if where == "body-start":
                    pos = 0
                elif where == "before-tail":
                    pos = tail_start(m)
                elif where == "loop-end":
                    marker = "/*@LBE%d*/" % pat
                    if body.count(marker) == 1:
                        pos = body.index(marker)
                    elif 1 <= pat <= len(loops):
                        pos = loops[pat - 1]["body_close"]
                    else:
                        raise ExtractError("loop-end %d: no such loop" % pat)
                elif where == "loop-start":
                    if not (1 <= pat <= len(loops)):
                        raise ExtractError("loop-start %d: no such loop" % pat)
                    lp = loops[pat - 1]
                    pos = lp["hdr_end"] + 1
                    if lp["kw"] == "loop":
                        # a for loop rewritten by R9: `loop { match itN.next(heap) { Some(x) => {` -- the body starts inside the arm
                        mm7 = re.match(r"\s*match\s+it\d+\s*\.\s*next\s*\([^)]*\)\s*\{\s*Some\s*\(", m[pos:])
                        if mm7:
                            j7 = m.index("=>", pos + mm7.end())
                            j7 = m.index("{", j7)
                            pos = j7 + 1
                elif where == "after-loop":
                    if not (1 <= pat <= len(loops)):
                        raise ExtractError("after-loop %d: no such loop" % pat)
                    pos = loops[pat - 1]["body_close"] + 1
                elif where == "before-loop":
                    if not (1 <= pat <= len(loops)):
                        raise ExtractError("before-loop %d: no such loop" % pat)
                    lp = loops[pat - 1]
                    mm9 = re.search(r"let\s+mut\s+it%d\s*=" % pat, m[:lp["start"]])
                    pos = stmt_start(m, lp["start"])[0] if not mm9 else stmt_start(m, mm9.start())[0]
                else:
                    nth, total = 1, 1
                    pats = pat
                    if isinstance(pat, tuple):
                        pats, nth, total = pat
                    lo, hi = 0, len(body)
                    tail_fb = where.endswith("~tail")
                    if tail_fb:
                        where = where[:-5]
                    if "@" in where:
                        where, ln_ = where.split("@")
                        ln_ = int(ln_)
                        if not (1 <= ln_ <= len(loops)):
                            raise ExtractError("anchor scoped to loop %d: no such loop" % ln_)
                        lo, hi = loops[ln_ - 1]["hdr_end"], loops[ln_ - 1]["body_close"]
                    ms = []
                    for alt in pats:
                        ms.extend(x for x in re.compile(pat_to_regex(alt)).finditer(body) if lo <= x.start() < hi)
                    ms.sort(key=lambda x: x.start())
                    if len(ms) != total and not (len(ms) > total and not isinstance(pat, tuple)):
                        if tail_fb:
                            pos = tail_start(m)
                            placed.append((pos, txt, slines, sidx))
                            inexact.append("anchor `%s` matched %d times (expected %d): hint placed before the tail expression" % ("` | `".join(pats), len(ms), total))
                            continue
                        raise ExtractError("anchor `%s` matched %d times (expected %d)" % ("` | `".join(pats), len(ms), total))
                    if len(ms) != total:
                        inexact.append("anchor `%s` matched %d times (expected %d): first occurrence taken" % ("` | `".join(pats), len(ms), total))
                    mt = ms[nth - 1]
                    if where == "before":
                        pos = mt.start()
                    elif where == "after":
                        pos = mt.end()
                    elif where == "before-stmt":
                        pos = stmt_start(m, mt.start())[0]
                    elif where == "after-stmt":
                        s0, blk = stmt_start(m, mt.start())
                        limit = match_close(m, blk) if blk >= 0 else len(m)
                        pos = stmt_end(m, s0, limit)
                    elif where == "in-block":
                        i2 = mt.end()
                        while i2 < len(m) and m[i2] != "{":
                            if m[i2] in "([":
                                i2 = match_close(m, i2)
                            i2 += 1
                        if i2 >= len(m):
                            raise ExtractError("in-block `%s`: no block follows" % mt.group(0))
                        pos = i2 + 1
            except ExtractError as e:
                lost.append((sidx, str(e)))
                continue
            if rscoped:
                sl2 = apply_scoped(slines, rscoped, loop_chain(loops, pos), rmap)
                if sl2 != slines:
                    slines = sl2
                    txt = "\n" + "\n".join((l + " /*@H*/") if l.strip() else l for l in slines) + "\n"
            placed.append((pos, txt, slines, sidx))
        lost_loops = [n for n in b.loops if n < 1 or n > len(loops)]
        dropped_names = set()
        if lost or lost_loops:
            # proof hints whose anchor is gone are dropped, together with every hint / invariant line that
            # mentions a ghost name they declare (fixpoint); the function is then verified without them
            def names_of(lines):
                return set(re.findall(r"let\s+ghost\s+(?:mut\s+)?([A-Za-z_]\w*)", "\n".join(lines)))
            for sidx, _ in lost:
                dropped_names |= names_of(b.splices[sidx][2])
            changed = True
            while changed:
                changed = False
                keep = []
                for pl in placed:
                    if dropped_names and re.search(r"\b(%s)\b" % "|".join(map(re.escape, dropped_names)), "\n".join(pl[2])):
                        nn = names_of(pl[2]) - dropped_names
                        dropped_names |= names_of(pl[2])
                        lost.append((pl[3], "depends on a dropped hint"))
                        changed = True
                    else:
                        keep.append(pl)
                placed = keep
        for pos, txt, _, sidx in placed:
            edits.append((pos, pos, txt, 2 + sidx))
            stats["R10-splice"] = stats.get("R10-splice", 0) + 1
        for idx, lp in ([] if is_bare else pending_loop_specs):
            lines_ = b.loops[idx]
            if rscoped:
                lines_ = apply_scoped(lines_, rscoped, [k for k in loop_chain(loops, lp["start"]) if k != idx], rmap)
            if dropped_names:
                rx_d = re.compile(r"\b(%s)\b" % "|".join(map(re.escape, dropped_names)))
                lines_ = [l for l in lines_ if not rx_d.search(l)]
            spec = "\n" + "\n".join(lines_) + "\n"
            edits.append((lp["hdr_end"], lp["hdr_end"], spec, 1))
            stats["R10-loop-spec"] = stats.get("R10-loop-spec", 0) + 1
        if is_bare:
            lost = [(0, "bare mode: the function did not compile with its proof annotations; all hints and loop invariants dropped")]
        hints_lost = rewrites_lost + [msg for _, msg in lost] + ["loop %d annotated but the function has %d loops" % (n, len(loops)) for n in lost_loops]
        if rmap:
            inexact.append("locals renamed in the annotations (R19): %s" % ", ".join("%s->%s" % kv for kv in sorted(rmap.items())))
        edits.sort(key=lambda e: (e[0], e[3]), reverse=True)
        for a, bb, rep, _ in edits:
            body = body[:a] + rep + body[bb:]
        heap_param = None
        if b.heap == "ref":
            heap_param = "heap: &Heap<K, N, E>"
        elif b.heap == "mut":
            heap_param = "heap: &mut Heap<K, N, E>"
        if b.region:
            nsig = b.regionsig
            stats["R11"] = 1
            if b.region_prelude:
                body = "\n        " + b.region_prelude + body
                stats["R14"] = stats.get("R14", 0) + 1
        else:
            nsig = rewrite_sig(sig, b, heap_param)
        spec = list(b.spec)
        start = len(out) + 1
        out.append("    // ---- extracted from %s:%d-%d (%s) hash %s" % (b.file, ex["line_start"], ex["line_end"], b.id, h))
        if b.extern_body or vacuity:
            out.append("    #[verifier::external_body]")
        elif bare and b.id in bare:
            out.append("    #[verifier::exec_allows_no_decreases_clause]")
        if not (b.extern_body or vacuity) and (loops or re.search(r"\bself\s*\.\s*%s\s*\(" % re.escape(b.name), mask(body))):
            # loops and recursions are verified in their own solver instance: the verdict of a function then does
            # not depend on which queries the shared solver happened to see before it (measured: deterministic rlimit)
            out.append("    #[verifier::spinoff_prover]")
        out.extend(("    " + nsig).split("\n"))
        out.extend(spec)
        out.append("    {")
        out.extend(["        unimplemented!()"] if vacuity else body.split("\n"))
        out.append("    }")
        if vacuity and not b.extern_body and not b.novac:
            # vacuity guard: the same body against `ensures false`, callees keep their real contracts
            vsig = re.sub(r"\bfn\s+(\w+)\b", lambda mm: "fn %s__vac" % mm.group(1), nsig, count=1)
            out.append("    // ---- vacuity copy of %s" % b.id)
            out.extend(("    " + vsig).split("\n"))
            out.extend(vacuous_spec(spec))
            out.append("    {")
            out.extend(body.split("\n"))
            out.append("    }")
        end = len(out)
        g.linemap.append((start, end, b.id))
        g.fns.append(dict(id=b.id, file=b.file, name=b.name, line_start=ex["line_start"], line_end=ex["line_end"], text=real_text, renamed=rmap,
                          hash=h, props=b.props, rules=stats, novac=b.novac or b.extern_body, hints_lost=hints_lost, hints_inexact=inexact, guards=guards, heap=b.heap,
                          gen_start=start, gen_end=end, text_builder=b.text, has_ensures=any(re.match(r"\s*ensures\b", s) for s in b.spec)))
        for k, v in stats.items():
            g.stats[k] = g.stats.get(k, 0) + v
    g.lines = out
    return g


def vacuous_spec(spec):
    """replace the ensures section by `ensures false` (vacuity guard)"""
    res = []
    mode = None
    done = False
    for ln in spec:
        s = ln.strip()
        if re.match(r"(requires|ensures|decreases|returns)\b", s):
            mode = s.split()[0]
            if mode in ("ensures", "returns"):
                if not done:
                    res.append("        ensures false,")
                    done = True
                continue
        if mode in ("ensures", "returns"):
            continue
        res.append(ln)
    if not done:
        # keep decreases last
        idx = len(res)
        for i, ln in enumerate(res):
            if ln.strip().startswith("decreases"):
                idx = i
                break
        res.insert(idx, "        ensures false,")
    return res
