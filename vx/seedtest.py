#!/usr/bin/env python3
"""Confirm seeded changes and run the registered checks against them.

  vx/seedtest.py confirm <seed dir> ...   in a scratch worktree outside /repo and /verif: the patch applies, the
                                          existing test suite still passes, the demo passes without and fails with it
  vx/seedtest.py check <seed dir> ...     apply to /repo, run the quick check of the property (and of every other
                                          claimed property with --all), undo (git checkout -- .)
Results are merged into <seed dir>/meta.json under "confirmation" / "detection".
"""
import json, os, shutil, subprocess, sys, time

REPO = "/repo"
WT = "/tmp/seedwt"
TGT = "/tmp/seedwt_target"


def sh(cmd, cwd=None, timeout=1800, env=None):
    e = dict(os.environ)
    e.update(env or {})
    p = subprocess.run(cmd, shell=True, cwd=cwd, stdout=subprocess.PIPE, stderr=subprocess.STDOUT, text=True, timeout=timeout, env=e)
    return p.returncode, p.stdout


def ensure_wt():
    if not os.path.isdir(WT):
        rc, out = sh("git -C %s worktree add -q --detach %s HEAD" % (REPO, WT))
        if rc:
            raise SystemExit(out)
    sh("git checkout -q --detach %s && git checkout -- . && git clean -fdq" % subprocess.check_output(["git", "-C", REPO, "rev-parse", "HEAD"], text=True).strip(), cwd=WT)


def load_meta(d):
    try:
        return json.load(open(os.path.join(d, "meta.json")))
    except Exception:
        return {}


def save_meta(d, m):
    json.dump(m, open(os.path.join(d, "meta.json"), "w"), indent=1)


def run_demo(d, repo_path):
    demo = os.path.join(d, "demo")
    tmp = "/tmp/seed_demo_run"
    shutil.rmtree(tmp, ignore_errors=True)
    shutil.copytree(demo, tmp, ignore=shutil.ignore_patterns("target", "Cargo.lock"))
    for root, _, files in os.walk(tmp):
        for f in files:
            if f == "Cargo.toml":
                p = os.path.join(root, f)
                s = open(p).read().replace("REPO_PATH_PLACEHOLDER", repo_path)
                open(p, "w").write(s)
    shutil.copy(os.path.join(REPO, "Cargo.lock"), os.path.join(tmp, "Cargo.lock")) if False else None
    rc, out = sh("cargo run --offline -q 2>&1 | tail -15", cwd=tmp, env={"CARGO_TARGET_DIR": "/tmp/seed_demo_target", "CARGO_NET_OFFLINE": "true"}, timeout=1200)
    rc2, _ = sh("cargo run --offline -q >/dev/null 2>&1", cwd=tmp, env={"CARGO_TARGET_DIR": "/tmp/seed_demo_target", "CARGO_NET_OFFLINE": "true"}, timeout=1200)
    shutil.rmtree(tmp, ignore_errors=True)
    return rc2, out[-1500:]


def confirm(d):
    m = load_meta(d)
    ensure_wt()
    patch = os.path.abspath(os.path.join(d, "patch.diff"))
    res = {"repo_head": subprocess.check_output(["git", "-C", REPO, "rev-parse", "--short", "HEAD"], text=True).strip()}
    rc, out = sh("git apply --check %s" % patch, cwd=WT)
    res["applies"] = rc == 0
    if rc:
        res["apply_error"] = out[-800:]
        m["confirmation"] = res
        save_meta(d, m)
        return res
    rc0, out0 = run_demo(d, WT)
    res["demo_without_change"] = "pass" if rc0 == 0 else "FAIL: " + out0[-400:]
    sh("git apply %s" % patch, cwd=WT)
    rc, out = sh("cargo test --workspace --no-fail-fast --offline 2>&1 | grep -E '^test result|FAILED|error(\\[|:)' | head -20", cwd=WT, env={"CARGO_TARGET_DIR": TGT})
    res["existing_tests_with_change"] = out.strip().split("\n")
    res["existing_tests_pass"] = ("FAILED" not in out) and ("error" not in out) and out.count("test result: ok") >= 4
    rc1, out1 = run_demo(d, WT)
    res["demo_with_change"] = "fails (exit %d)" % rc1 if rc1 != 0 else "PASSES (not a demonstration)"
    res["demo_output_with_change"] = out1[-600:]
    sh("git checkout -- .", cwd=WT)
    res["confirmed"] = bool(res["existing_tests_pass"] and rc0 == 0 and rc1 != 0)
    m["confirmation"] = res
    save_meta(d, m)
    return res


def check(d, all_props=False, only=None):
    """Runs the registered quick check(s) against the library with the seeded change applied.  The change is
    applied to a scratch copy of /repo's working tree (outside /repo and /verif) and the check is pointed at it
    with VERIF_REPO, which is what `git -C /repo apply` + check + `git checkout -- .` would verify, without
    disturbing /repo while other work reads it."""
    m = load_meta(d)
    prop = m.get("property") or os.path.basename(d.rstrip("/")).split("_")[0]
    prop = prop.split()[0].strip(",")
    if not prop.startswith("C") or len(prop) > 4:
        prop = os.path.basename(d.rstrip("/")).split("_")[0]
    patch = os.path.abspath(os.path.join(d, "patch.diff"))
    scratch = "/tmp/seedchk_wt_%d" % os.getpid()
    shutil.rmtree(scratch, ignore_errors=True)
    os.makedirs(scratch)
    shutil.copytree(os.path.join(REPO, "src"), os.path.join(scratch, "src"))
    sh("git init -q", cwd=scratch)
    rc, out = sh("git apply --unsafe-paths %s" % patch, cwd=scratch)
    res = {}
    if rc:
        res["applies"] = False
        res["error"] = out[-500:]
    else:
        man = json.load(open("/verif/MANIFEST.json"))
        claimed = [c["property_id"] for c in man["checks"]]
        props = only or (claimed if all_props else [prop])
        res["runs"] = {}
        for p in props:
            if p not in claimed:
                res["runs"][p] = "not claimed"
                continue
            t0 = time.time()
            rc, out = sh("python3 vx/check.py --property %s --tier quick" % p, cwd="/verif", timeout=3600, env={"VERIF_REPO": scratch, "VERIF_BUILD": "/tmp/vb_seed_%d" % os.getpid(), "VERIF_EVIDENCE": "/tmp/ve_seed_%d" % os.getpid(), "VERIF_REPLAY": "/tmp/vr_seed_%d" % os.getpid(), "VERIF_ORACLE_EXCLUDE": os.path.basename(d.rstrip("/"))})
            lines = [l for l in out.split("\n") if l.startswith(("VIOLATION", "UNDECIDED", "KNOWN-FINDING", "property "))]
            res["runs"][p] = {"exit": rc, "lines": [l[:400] for l in lines][:8], "wall_s": round(time.time() - t0, 1)}
        res["detected"] = any(isinstance(r, dict) and r["exit"] == 1 for r in res["runs"].values())
    shutil.rmtree(scratch, ignore_errors=True)
    shutil.rmtree("/tmp/vb_seed_%d" % os.getpid(), ignore_errors=True)
    shutil.rmtree("/tmp/ve_seed_%d" % os.getpid(), ignore_errors=True)
    shutil.rmtree("/tmp/vr_seed_%d" % os.getpid(), ignore_errors=True)
    m.setdefault("detection", {})[subprocess.check_output(["git", "-C", "/verif", "rev-parse", "--short", "HEAD"], text=True).strip()] = res
    save_meta(d, m)
    return res


if __name__ == "__main__":
    mode = sys.argv[1]
    allp = "--all" in sys.argv
    only = [a.split("=", 1)[1].split(",") for a in sys.argv if a.startswith("--props=")]
    only = only[0] if only else None
    for d in [a for a in sys.argv[2:] if not a.startswith("--")]:
        if mode == "confirm":
            r = confirm(d)
            print(os.path.basename(d.rstrip("/")), "confirmed" if r.get("confirmed") else "NOT CONFIRMED", json.dumps({k: r[k] for k in r if k in ("applies", "existing_tests_pass", "demo_without_change", "demo_with_change")}))
        else:
            r = check(d, allp, only)
            print(os.path.basename(d.rstrip("/")), json.dumps(r)[:600])
        sys.stdout.flush()
