#!/usr/bin/env python3
"""Writes seeded/MATRIX.md from seeded/*/meta.json (confirmation + latest detection run)."""
import glob, json, os
ROOT = os.path.dirname(os.path.dirname(os.path.abspath(__file__)))
rows = []
for d in sorted(glob.glob(os.path.join(ROOT, "seeded", "*C[0-9][0-9]_*"))):
    m = json.load(open(os.path.join(d, "meta.json")))
    conf = m.get("confirmation", {})
    det = m.get("detection", {})
    commit, last = (list(det.items())[-1] if det else ("-", {}))
    runs = last.get("runs", {})
    verdicts = []
    for p, r in runs.items():
        if isinstance(r, dict):
            first = next((l for l in r["lines"] if l.startswith("VIOLATION")), "") or next((l for l in r["lines"] if l.startswith("UNDECIDED")), "")
            obl = ""
            if "obligation=" in first:
                obl = first.split("obligation=")[1].split(" clause")[0]
            mode = ""
            if r["exit"] == 1:
                mode = " (failing input shown by another oracle program)" if "failing-input-attached" in first else " (verifier, annotations intact)"
            elif r["exit"] == 2:
                mode = " (" + (first.split(": ", 2)[-1][:90] if first else "undecided") + ")"
            verdicts.append("%s: exit %d %s%s" % (p, r["exit"], obl, mode))
        else:
            verdicts.append("%s: %s" % (p, r))
    what = (m.get("what_breaks") or "").replace("\n", " ")
    rows.append((os.path.basename(d), "yes" if conf.get("confirmed") else "NO", "; ".join(verdicts), commit, what[:160]))
with open(os.path.join(ROOT, "seeded", "MATRIX.md"), "w") as f:
    f.write("# Seeded property-breaking changes and what the checks say\n\n")
    f.write("Each directory holds `patch.diff` (against /repo), `demo/` (passes on /repo, fails with the patch) and `meta.json`\n")
    f.write("(what breaks, what it needs to manifest, confirmation run, detection runs). Produced by independent sub-agents that saw only the\n")
    f.write("property text; confirmed with `vx/seedtest.py confirm`, checked with `vx/seedtest.py check` (which excludes the change's own demonstration program from the oracle programs, so no change is confirmed by its own demo).\n\n")
    f.write("| id | confirmed | verdict of the property's quick check | /verif commit | what the change breaks |\n|---|---|---|---|---|\n")
    for r in rows:
        f.write("| %s | %s | %s | %s | %s |\n" % r)
    n = len(rows)
    caught = sum(1 for r in rows if "exit 1" in r[2])
    byinput = sum(1 for r in rows if "exit 1" in r[2] and "failing input shown" in r[2])
    und = sum(1 for r in rows if "exit 2" in r[2] and "exit 1" not in r[2])
    miss = n - caught - und
    f.write("\n%d seeded changes: %d reported as VIOLATION (exit 1) -- %d by the verifier alone with all proof annotations in place, %d after a failing input was shown by an oracle program other than the change's own demonstration; %d undecided (exit 2: the changed text left the verifier's reach and no other program fails); %d not noticed (exit 0).\n" % (n, caught, caught - byinput, byinput, und, miss))
print(open(os.path.join(ROOT, "seeded", "MATRIX.md")).read()[-400:])
