"""Minimal Rust source scanner used by the extractor.

Not a Rust parser: it masks comments / string / char literals so that bracket
matching and keyword search can be done on the remaining text, and it locates
`impl` blocks and `fn` items by header text.  All offsets refer to the original
source string, so extracted text is the text of /repo byte for byte.
"""
import re


class ExtractError(Exception):
    """Raised when an anchor cannot be located or the text is not in the
    expected shape.  The driver turns this into exit 2 (undecided), never into
    a violation."""


class GuardEscape(ExtractError):
    """An adjacency guard (RefCell borrow / RwLock guard) is created in a function that hands it out
    (an iterator constructor): its live range is not bounded by the function, so it overlaps whatever
    runs while the iterator is alive, user code included (R4b)."""
    def __init__(self, fid, msg):
        super().__init__(msg)
        self.fid = fid


def mask(src: str, comments_only: bool = False) -> str:
    """Return a string of the same length where the *contents* of comments,
    string literals and char literals are replaced by spaces (newlines kept).
    With comments_only, literals are kept and only comments are blanked."""
    out = list(src)
    i, n = 0, len(src)

    def blank(a, b, is_comment=False):
        if comments_only and not is_comment:
            return
        for j in range(a, b):
            if out[j] != "\n":
                out[j] = " "

    while i < n:
        c = src[i]
        if src.startswith("//", i):
            j = src.find("\n", i)
            j = n if j < 0 else j
            blank(i, j, True)
            i = j
        elif src.startswith("/*", i):
            depth, j = 1, i + 2
            while j < n and depth:
                if src.startswith("/*", j):
                    depth += 1
                    j += 2
                elif src.startswith("*/", j):
                    depth -= 1
                    j += 2
                else:
                    j += 1
            blank(i, j, True)
            i = j
        elif c == '"':
            j = i + 1
            while j < n and src[j] != '"':
                j += 2 if src[j] == "\\" else 1
            blank(i + 1, j)
            i = j + 1
        elif c == "r" and re.match(r'r#*"', src[i:i + 8]) and (i == 0 or not (src[i - 1].isalnum() or src[i - 1] == "_")):
            m = re.match(r'r(#*)"', src[i:])
            close = '"' + m.group(1)
            j = src.find(close, i + len(m.group(0)))
            j = n if j < 0 else j
            blank(i + len(m.group(0)), j)
            i = j + len(close)
        elif c == "'":
            # char literal or lifetime
            m = re.match(r"'(\\.[^']*|[^\\'])'", src[i:])
            if m:
                blank(i + 1, i + len(m.group(0)) - 1)
                i += len(m.group(0))
            else:
                i += 1
        else:
            i += 1
    return "".join(out)


OPEN = {"(": ")", "[": "]", "{": "}"}
CLOSE = {v: k for k, v in OPEN.items()}


def match_close(m: str, i: int) -> int:
    """m: masked text, i: offset of an opening bracket. Returns offset of its
    matching closing bracket."""
    assert m[i] in OPEN, (m[i], i)
    stack = []
    j = i
    n = len(m)
    while j < n:
        c = m[j]
        if c in OPEN:
            stack.append(c)
        elif c in CLOSE:
            if not stack or stack[-1] != CLOSE[c]:
                raise ExtractError("unbalanced bracket at offset %d" % j)
            stack.pop()
            if not stack:
                return j
        j += 1
    raise ExtractError("unterminated bracket opened at offset %d" % i)


def norm_ws(s: str) -> str:
    return re.sub(r"\s+", " ", s).strip()


def find_impls(src: str, m: str):
    """Yield (header_text_normalised, body_open, body_close) for every `impl`
    item at top level (brace depth 0)."""
    depth = 0
    i, n = 0, len(m)
    res = []
    while i < n:
        c = m[i]
        if c == "{":
            depth += 1
        elif c == "}":
            depth -= 1
        elif depth == 0 and m.startswith("impl", i) and (i == 0 or not (m[i - 1].isalnum() or m[i - 1] == "_")) and not (m[i + 4].isalnum() or m[i + 4] == "_"):
            j = i
            # header runs to the first '{' at angle/paren depth 0
            k = j
            while k < n and m[k] != "{":
                if m[k] in "([":
                    k = match_close(m, k)
                k += 1
            if k >= n:
                raise ExtractError("impl without body")
            close = match_close(m, k)
            hdr = norm_ws(src[j:k])
            hdr = hdr.split(" where ")[0].strip()
            res.append((hdr, k, close))
            i = close
            depth = 0
        i += 1
    return res


FN_RE = re.compile(r"(?:pub(?:\([a-z]+\))?\s+)?(?:const\s+)?(?:unsafe\s+)?fn\s+([A-Za-z_][A-Za-z0-9_]*)")


def find_fns(src: str, m: str, lo: int, hi: int):
    """Yield dicts for every fn item directly inside m[lo:hi] (brace depth 0
    relative to lo)."""
    res = []
    i = lo
    while i < hi:
        c = m[i]
        if c == "{":
            i = match_close(m, i) + 1
            continue
        mm = FN_RE.match(m, i)
        if mm and (i == 0 or not (m[i - 1].isalnum() or m[i - 1] == "_")):
            name = mm.group(1)
            k = mm.end()
            while k < hi and m[k] not in "{;":
                if m[k] in "([":
                    k = match_close(m, k)
                k += 1
            if k >= hi or m[k] == ";":
                i = k + 1
                continue
            close = match_close(m, k)
            res.append(dict(name=name, start=i, body_open=k, body_close=close))
            i = close + 1
            continue
        i += 1
    return res


def line_of(src: str, off: int) -> int:
    return src.count("\n", 0, off) + 1


def extract_fn(path: str, src: str, impl_pat: str, fn_name: str):
    """Locate fn `fn_name` inside the impl whose normalised header matches the
    regular expression `impl_pat` (or at top level when impl_pat == '').
    Returns dict(sig, body, line_start, line_end)."""
    m = mask(src)
    cands = []
    if impl_pat:
        rx = re.compile(impl_pat)
        for hdr, bo, bc in find_impls(src, m):
            if rx.search(hdr):
                for f in find_fns(src, m, bo + 1, bc):
                    if f["name"] == fn_name:
                        cands.append((hdr, f))
    else:
        for f in find_fns(src, m, 0, len(m)):
            if f["name"] == fn_name:
                cands.append(("", f))
    if len(cands) != 1:
        raise ExtractError("anchor %s :: /%s/ :: fn %s matched %d items" % (path, impl_pat, fn_name, len(cands)))
    hdr, f = cands[0]
    nc = mask(src, comments_only=True)
    sig = nc[f["start"]:f["body_open"]]
    body = nc[f["body_open"] + 1:f["body_close"]]
    return dict(impl=hdr, sig=sig, body=body,
                line_start=line_of(src, f["start"]), line_end=line_of(src, f["body_close"]),
                body_line=line_of(src, f["body_open"]))


def extract_region(path: str, src: str, fn_name: str, start_pat: str, end_pat: str):
    """Locate fn `fn_name` anywhere in the file (also nested inside other items) and
    return the text of its body from the first occurrence of start_pat up to and
    including the last occurrence of end_pat (both whitespace-insensitive literals)."""
    m = mask(src)
    nc = mask(src, comments_only=True)
    cands = []
    for mm in re.finditer(r"(?<![\w])fn\s+%s\b" % re.escape(fn_name), m):
        k = mm.end()
        while k < len(m) and m[k] not in "{;":
            if m[k] in "([":
                k = match_close(m, k)
            k += 1
        if k < len(m) and m[k] == "{":
            cands.append((mm.start(), k, match_close(m, k)))
    if len(cands) != 1:
        raise ExtractError("region anchor %s :: fn %s matched %d items" % (path, fn_name, len(cands)))
    st, bo, bc = cands[0]
    body = nc[bo + 1:bc]
    if start_pat == "*":
        return dict(impl="", sig="", body=body, line_start=line_of(src, bo + 1), line_end=line_of(src, bc), body_line=line_of(src, bo + 1))
    def rx(p):
        toks = re.findall(r"[A-Za-z_0-9]+|\S", p)
        return r"\s*".join(re.escape(t) for t in toks)
    ms = list(re.finditer(rx(start_pat), body))
    me = list(re.finditer(rx(end_pat), body))
    if len(ms) != 1 or len(me) < 1:
        raise ExtractError("region markers in %s::%s matched %d / %d times" % (path, fn_name, len(ms), len(me)))
    a, b = ms[0].start(), me[-1].end()
    if b <= a:
        raise ExtractError("region markers out of order in %s::%s" % (path, fn_name))
    text = body[a:b]
    return dict(impl="", sig="", body=text, line_start=line_of(src, bo + 1 + a), line_end=line_of(src, bo + 1 + b), body_line=line_of(src, bo + 1 + a))
