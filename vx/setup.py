#!/usr/bin/env python3
"""setup_cmd: nothing to build (Python + Verus are pre-installed); checks that the tools
are present and warms the Verus cache with a trivial file."""
import os, shutil, subprocess, sys, tempfile
if not shutil.which("verus"):
    print("verus not on PATH"); sys.exit(1)
d = tempfile.mkdtemp(prefix="vxsetup")
open(os.path.join(d, "t.rs"), "w").write("use vstd::prelude::*;\nverus!{ proof fn t() ensures 1 + 1 == 2int {} }\nfn main(){}\n")
p = subprocess.run(["verus", "t.rs"], cwd=d, stdout=subprocess.PIPE, stderr=subprocess.STDOUT, text=True)
shutil.rmtree(d, ignore_errors=True)
print(p.stdout.strip().split("\n")[-1])
sys.exit(0 if p.returncode == 0 else 1)
