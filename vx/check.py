#!/usr/bin/env python3
"""Driver: extraction -> generation -> Verus -> verdict per property -> evidence.

    vx/check.py --property C01 --tier quick|thorough
    vx/check.py --record-baseline          (after a reviewed change of /repo or contracts)
    vx/check.py --unit heap_directed --flavour dg   (developer mode: print diagnostics)

Exit codes (DESIGN §3.6): 0 holds / 1 violation / 2 undecided.
"""
import argparse
import concurrent.futures as cf
import hashlib
import json
import os
import re
import shutil
import sys
import time

HERE = os.path.dirname(os.path.abspath(__file__))
ROOT = os.path.dirname(HERE)
sys.path.insert(0, ROOT)

from vx import gen, run  # noqa: E402
from vx.rsparse import ExtractError, GuardEscape, extract_fn, mask  # noqa: E402

REPO = os.environ.get("VERIF_REPO", "/repo")
BUILD = os.environ.get("VERIF_BUILD") or os.path.join(ROOT, "build")
EVID = os.environ.get("VERIF_EVIDENCE") or os.path.join(ROOT, "evidence")
UNITS = json.load(open(os.path.join(ROOT, "contracts", "units.json")))
ASSUME_RX = re.compile(r"external_body|\bassume\s*\(|\badmit\s*\(|assume_specification|exec_allows_no_decreases_clause|external_type_specification|\bexternal\b\]")


def load_json(path, default):
    try:
        return json.load(open(path))
    except Exception:
        return default


def unit_flavours(prop=None):
    res = []
    for uname, u in UNITS["units"].items():
        for fl in u["flavours"]:
            if prop is None or prop in u["properties"]:
                res.append((uname, fl))
    return res


def build_one(uname, fl, vacuity=False, bare=None):
    u = UNITS["units"][uname]
    tpl = os.path.join(ROOT, "contracts", u["template"])
    g = gen.generate(tpl, fl, repo=REPO, vacuity=vacuity, bare=bare, base_texts=baseline_texts())
    os.makedirs(BUILD, exist_ok=True)
    path = os.path.join(BUILD, "%s_%s%s%s.rs" % (uname, fl, "_vac" if vacuity else "", "_bare" if bare else ""))
    open(path, "w").write("\n".join(g.lines) + "\n")
    return g, path


def fn_of_line(g, line):
    for a, b, fid in g.linemap:
        if a <= line <= b:
            return fid
    return None


def crate_fn_id(name):
    # "heap_directed_dg::Adjacent::find_outbound" -> "Adjacent::find_outbound"
    return name.split("::", 1)[1] if "::" in name else name


def verify_unit(uname, fl, seed=None, rlimit=None, vacuity=True):
    """-> dict with per-obligation results for this unit/flavour"""
    t0 = time.time()
    out = dict(unit=uname, flavour=fl, error=None)
    try:
        g, path = build_one(uname, fl)
        gv, pathv = (build_one(uname, fl, vacuity=True) if vacuity else (None, None))
    except GuardEscape as e:
        out["error"] = "extraction: %s" % e
        out["guard_escape"] = e.fid
        return out
    except ExtractError as e:
        out["error"] = "extraction: %s" % e
        return out
    with cf.ThreadPoolExecutor(2) as ex:
        f1 = ex.submit(run.run_verus, path, rlimit, seed)
        f2 = ex.submit(run.run_verus, pathv, rlimit, seed, 1800, None, 0) if vacuity else None
        r = f1.result()
        rv = f2.result() if f2 else None
    out.update(gen=g, path=path, res=r, resv=rv)
    if r["fatal"]:
        # compile error: if extracted functions changed w.r.t. the baseline, their proof annotations may be
        # stale (they mention program variables that no longer exist). Retry with those functions `bare`.
        base = baseline()
        key = "%s/%s" % (uname, fl)
        changed = set(f["id"] for f in g.fns if base["functions"].get("%s/%s" % (key, f["id"])) not in (None, f["hash"]))
        if changed:
            try:
                g2, path2 = build_one(uname, fl, bare=changed)
                r2 = run.run_verus(path2, rlimit, seed)
                if not r2["fatal"]:
                    g, path, r = g2, path2, r2
                    out.update(gen=g, path=path, res=r, bare=sorted(changed))
                    vacuity = False
                    rv = None
                    out["resv"] = None
            except ExtractError:
                pass
    if r["fatal"]:
        out["error"] = "verus: %s\n%s" % (r["fatal"], "\n".join(d["rendered"] for d in r["diags"][:8]))
        return out
    ext = {f["id"]: f for f in g.fns}
    obls = {}
    for f in r["functions"]:
        if f["mode"] == "spec":
            continue  # termination checks of spec functions: counted with lemmas below
        fid = crate_fn_id(f["name"])
        obls[fid] = dict(id=fid, kind="extracted" if fid in ext else "lemma", success=bool(f["success"]),
                         ms=f["ms"], rlimit=f["rlimit"], diags=[], mode=f["mode"])
    for f in r["functions"]:
        if f["mode"] == "spec":
            fid = crate_fn_id(f["name"])
            obls.setdefault(fid, dict(id=fid, kind="spec-termination", success=bool(f["success"]), ms=f["ms"],
                                      rlimit=f["rlimit"], diags=[], mode="spec"))
    # attach diagnostics
    loose = []
    for d in r["diags"]:
        fid = None
        for ln in [d["line"]] + d["other_lines"]:
            if ln:
                fid = fn_of_line(g, ln)
                if fid:
                    break
        if fid and fid in obls:
            obls[fid]["diags"].append(d)
        else:
            loose.append(d)
    out["loose_diags"] = loose
    # every extracted function must have been seen by the solver
    missing = [fid for fid in ext if fid not in obls and not ext[fid].get("extern")]
    out["missing"] = missing
    # vacuity: every extracted function with an ensures clause must FAIL under `ensures false`
    vac_bad = []
    if rv is not None:
        if rv["fatal"]:
            out["error"] = "vacuity run: %s\n%s" % (rv["fatal"], "\n".join(d["rendered"] for d in rv["diags"][:8]))
            return out
        vs = {crate_fn_id(f["name"]): f for f in rv["functions"]}
        for fid, f in ext.items():
            if f.get("novac"):
                continue
            v = vs.get(fid + "__vac")
            if v is None:
                vac_bad.append(fid + " (vacuity copy produced no obligation)")
            elif v["success"]:
                vac_bad.append(fid)
    out["vacuous"] = vac_bad
    out["obligations"] = obls
    out["wall"] = time.time() - t0
    src = open(path).read()
    out["assumption_sites"] = len(ASSUME_RX.findall(src))
    return out


_BT = None


def baseline_texts():
    """real text (signature + body) of every extracted function when the baseline was recorded: used by R19 to carry
    renamed locals over into the proof annotations"""
    global _BT
    if _BT is None:
        _BT = load_json(os.path.join(ROOT, "baseline_text.json"), None)
    return _BT


def baseline():
    return load_json(os.path.join(ROOT, "baseline_extract.json"), {"functions": {}, "assumption_sites": {}, "trusted": {}})


def trusted_pins():
    """hash the real bodies of the functions that the environment shims stand for"""
    res = {}
    for pin in UNITS.get("trusted_pins", []):
        for fl in pin["flavours"]:
            file = pin["file"].replace("{FL}", gen.FLAVOURS[fl]["dir"])
            key = "%s/%s::%s" % (fl, pin["impl_name"], pin["fn"])
            try:
                ex = extract_fn(file, open(os.path.join(REPO, file)).read(), pin["impl"], pin["fn"])
                res[key] = gen.text_hash(ex["sig"], ex["body"])
            except (ExtractError, OSError) as e:
                res[key] = "MISSING: %s" % e
    return res


def record_baseline():
    base = {"functions": {}, "assumption_sites": {}, "trusted": trusted_pins(), "obligation_counts": {}}
    texts = {}
    ok = True
    results = run_units(unit_flavours(), None, None)
    for (uname, fl), u in results.items():
        key = "%s/%s" % (uname, fl)
        if u["error"]:
            print("ERROR %s: %s" % (key, u["error"]))
            ok = False
            continue
        for f in u["gen"].fns:
            o = u["obligations"].get(f["id"])
            if o and o["success"]:
                base["functions"]["%s/%s" % (key, f["id"])] = f["hash"]
                texts["%s/%s" % (key, f["id"])] = f["text"]
            else:
                print("not recorded (undischarged): %s/%s" % (key, f["id"]))
        base["assumption_sites"][key] = u["assumption_sites"]
        base["obligation_counts"][key] = len(u["obligations"])
    json.dump(base, open(os.path.join(ROOT, "baseline_extract.json"), "w"), indent=1, sort_keys=True)
    json.dump(texts, open(os.path.join(ROOT, "baseline_text.json"), "w"), indent=0, sort_keys=True)
    print("baseline recorded: %d functions" % len(base["functions"]))
    return 0 if ok else 2


def run_units(ufs, seed, rlimit, vacuity=True):
    results = {}
    with cf.ThreadPoolExecutor(max_workers=4) as ex:
        futs = {ex.submit(verify_unit, u, fl, seed, rlimit, vacuity): (u, fl) for u, fl in ufs}
        for f in cf.as_completed(futs):
            results[futs[f]] = f.result()
    return results


def decide(prop, tier, seed):
    t0 = time.time()
    ufs = unit_flavours(prop)
    base = baseline()
    known = load_json(os.path.join(ROOT, "known_findings.json"), {"findings": []})["findings"]
    results = run_units(ufs, None, None)
    extra_runs = []
    if tier == "thorough":
        # re-verify with other solver seeds and half the resource limit: instability shows as undecided
        for i in range(3):
            s = (seed * 7919 + i * 104729 + 17) % 100000 + 1
            rr = run_units(ufs, s, 5, vacuity=False)
            extra_runs.append((s, rr))
    undecided = []
    violations = []
    known_hits = []
    obligations = 0
    discharged = 0
    fn_report = []
    samples = []
    smt_ms = 0
    outside = []   # changed code that is outside the verifier's reach (dialect, trusted shims): decided only by a failing input
    trusted_now = trusted_pins()
    for k, v in trusted_now.items():
        if base["trusted"].get(k) != v:
            undecided.append("trusted base changed: %s (real body differs from the audited one the shim stands for)" % k)
            outside.append(dict(obligation="trusted/%s" % k, reason="the body of a function that the environment only assumes (hash-pinned shim) changed", changed=[k],
                                unit="trusted", flavour=k.split("/")[0], rendered="trusted base changed: %s" % k))
    rules = {}
    for (uname, fl), u in sorted(results.items()):
        key = "%s/%s" % (uname, fl)
        if u["error"]:
            if u.get("guard_escape") and prop in ("C20", "C03"):
                violations.append(dict(obligation="%s/%s" % (key, u["guard_escape"]), clause="R4b guard-escape: " + u["error"], fn=None,
                                       diags=[dict(rendered=u["error"], message="guard escape")], changed=[u["guard_escape"]], path="", unit=uname, flavour=fl, hints_lost=[]))
                obligations += 1
            else:
                undecided.append("%s: %s" % (key, u["error"]))
                chg = []
                if u.get("gen") is not None:
                    chg = [f["id"] for f in u["gen"].fns if base["functions"].get("%s/%s" % (key, f["id"])) not in (None, f["hash"])]
                if chg or u.get("gen") is None:
                    outside.append(dict(obligation="%s/%s" % (key, chg[0] if chg else "extraction"), reason="the changed text cannot be brought before the verifier: %s" % u["error"].split("\n")[0][:300],
                                        changed=chg, unit=uname, flavour=fl, rendered=u["error"]))
            continue
        smt_ms += u["res"].get("smt_ms") or 0
        g = u["gen"]
        for k2, v2 in g.stats.items():
            rules[k2] = rules.get(k2, 0) + v2
        ext = {f["id"]: f for f in g.fns}
        # bare-mode functions carry `exec_allows_no_decreases_clause` added by the generator itself: their verdict is
        # "not decided" anyway, so the extra sites are not reported a second time
        n_bare = len(u.get("bare") or [])
        if base["assumption_sites"].get(key) is not None and not (base["assumption_sites"][key] <= u["assumption_sites"] <= base["assumption_sites"][key] + n_bare):
            undecided.append("%s: assumption scan found %d trusted sites, allow-list has %d" % (key, u["assumption_sites"], base["assumption_sites"][key]))
        if base.get("obligation_counts", {}).get(key) is not None and base["obligation_counts"][key] != len(u["obligations"]):
            undecided.append("%s: obligation count %d differs from recorded %d" % (key, len(u["obligations"]), base["obligation_counts"][key]))
        for fid in u["missing"]:
            undecided.append("%s: extracted function %s generated no obligation" % (key, fid))
        for fid in u["vacuous"]:
            undecided.append("%s: vacuity guard: %s verifies against `ensures false`" % (key, fid))
        changed_in_unit = [f["id"] for f in g.fns if base["functions"].get("%s/%s" % (key, f["id"])) != f["hash"]]
        for fid, o in sorted(u["obligations"].items()):
            f = ext.get(fid)
            serves = (f is None) or (prop in f["props"]) or prop == "C15"
            if not serves:
                continue
            obligations += 1
            entry = dict(obligation="%s/%s" % (key, fid), kind=o["kind"], ms=o["ms"], rlimit=o["rlimit"], ok=o["success"])
            if f:
                entry["source"] = "%s:%d-%d" % (f["file"], f["line_start"], f["line_end"])
                entry["hash"] = f["hash"]
            fn_report.append(entry)
            if o["success"]:
                discharged += 1
                continue
            kinds = [run.classify(d["message"]) for d in o["diags"]]
            clause = "; ".join(sorted(set(d["message"] for d in o["diags"]))) or "no diagnostic"
            # known finding?
            kf = None
            for kn in known:
                if kn.get("status") == "open" and kn["property"] == prop and kn["obligation"] == "%s/%s" % (key, fid) \
                        and f is not None and kn.get("hash") == f["hash"]:
                    kf = kn
            if kf:
                known_hits.append(kf)
                discharged += 0
                continue
            if "undecided" in kinds or not o["diags"]:
                undecided.append("%s/%s: solver gave no verdict (%s)" % (key, fid, clause))
                continue
            if not changed_in_unit:
                undecided.append("%s/%s: refuted although no extracted text of the unit differs from the baseline (%s)" % (key, fid, clause))
                continue
            lost_h = ((f or {}).get("hints_lost") or []) + ((f or {}).get("hints_inexact") or [])
            # text-building functions (R20): the same text can be produced by many orders of pushes (the newline at the end of
            # a line or at the start of the next), so the loop invariants written for the unchanged text say more about
            # intermediate states than the property does.  A failure of an invariant or of a hint there is treated like a
            # lost annotation (a failing input decides); a failed postcondition / precondition with all invariants
            # discharged is the contract itself (benign refactoring BENIGN5_1 was a false alarm before this rule)
            # (an invariant that does not speak about the text -- which edges the loop ranges over, which members were seen --
            # is not of that kind and stays under rule (i))
            text_specs = re.compile(r"\b(plain_nodes|plain_edges|attr_nodes|attr_edges|attr_node_edges|gattr_lines|attr_text|opt_gattr|opt_attr|dot_plain|dot_attr|dot_head)\b")
            if (f or {}).get("text_builder") and o["diags"] and all(
                    ("invariant" in d["message"] or "assertion failed" in d["message"]) and text_specs.search(d.get("rendered") or "")
                    for d in o["diags"]):
                lost_h = lost_h + ["text-building function: only loop invariants / hints written for the unchanged text fail"]
                if f is not None and not f.get("hints_lost"):
                    f["hints_lost"] = ["text-building function: only loop invariants / hints written for the unchanged text fail"]
            if (lost_h or fid in (u.get("bare") or [])) and not confirmed_by_input(prop, "%s/%s" % (key, fid)):
                # the proof annotations of this function were written for a different text: without them the solver cannot
                # tell a broken property from a missing invariant, so this is no verdict (never an alarm)
                undecided.append("%s/%s: changed text not decided: its proof annotations no longer apply (%s); solver: %s" % (
                    key, fid, "; ".join(lost_h)[:300] or "bare mode", clause))
                continue
            violations.append(dict(obligation="%s/%s" % (key, fid), clause=clause, fn=f, diags=o["diags"],
                                   changed=changed_in_unit, path=u["path"], unit=uname, flavour=fl,
                                   hints_lost=(f or {}).get("hints_lost") or []))
        # thorough: stability
        for s, rr in extra_runs:
            uu = rr.get((uname, fl))
            if uu is None or uu["error"]:
                undecided.append("%s: seed %d run failed: %s" % (key, s, uu and uu["error"]))
                continue
            for fid, o in uu["obligations"].items():
                o0 = u["obligations"].get(fid)
                if o0 and o0["success"] and not o["success"]:
                    undecided.append("%s/%s: unstable: fails with random_seed=%d rlimit=5" % (key, fid, s))
        # samples
        for f in g.fns:
            if (prop in f["props"] or prop == "C15") and len(samples) < 3:
                txt = "\n".join(g.lines[f["gen_start"] - 1:f["gen_end"]])
                samples.append(dict(obligation="%s/%s" % (key, f["id"]), generated_text=txt[:6000]))
    if outside and not violations:
        # no obligation could be generated for the changed text. That is "undecided" -- unless a failing input can be shown
        # on the real code, in which case the property is violated by the tree under check whatever the verifier can read.
        w = None
        try:
            from vx import witness
            w = witness.run_oracles(prop, REPO)
        except Exception:
            w = None
        if w:
            o = outside[0]
            obligations += 1
            violations.append(dict(obligation=o["obligation"], clause="not verifiable after the change (%s)" % o["reason"], fn=None,
                                   diags=[dict(rendered=x["rendered"], message=x["reason"]) for x in outside], changed=o["changed"], path="",
                                   unit=o["unit"], flavour=o["flavour"], hints_lost=["outside the verifier's reach"]))
    extra = {}
    if prop == "C20":
        sc = scan_c20()
        extra["guard_scan"] = sc["report"]
        for o in sc["obligations"]:
            obligations += 1
            if o["ok"]:
                discharged += 1
            else:
                violations.append(dict(obligation=o["id"], clause="R4b scan: " + o["why"], fn=None, diags=[dict(rendered=o["why"], message=o["why"])],
                                       changed=[o["id"]], path="", unit="scan", flavour=o["flavour"], hints_lost=[]))
            fn_report.append(dict(obligation=o["id"], kind="syntactic R4b scan", ok=o["ok"], ms=0, rlimit=0))
    if prop == "C15":
        extra["twin_comparison"] = twin_table(results)
    if tier == "thorough" and not os.environ.get("VERIF_NO_KILL"):
        km = kill_matrix(prop)
        extra["mutation_adequacy"] = dict(
            rule="seeded property-breaking changes of this property (seeded/*/patch.diff, each confirmed to break the property on the real crate while the test suite passes) applied one at a time to a scratch copy of the tree under check; outcome of the quick check",
            seeds=len(km), reported=sum(1 for r in km if r["outcome"] == "reported"), undecided=sum(1 for r in km if r["outcome"] == "undecided"),
            not_noticed=sum(1 for r in km if r["outcome"] == "not noticed"), rows=km)
    return dict(prop=prop, tier=tier, seed=seed, extra=extra, results=results, undecided=undecided, violations=violations,
                known_hits=known_hits, obligations=obligations, discharged=discharged, fn_report=fn_report,
                samples=samples, smt_ms=smt_ms, wall=time.time() - t0, rules=rules, ufs=ufs,
                extra_seeds=[s for s, _ in extra_runs])


def kill_matrix(prop, jobs=3):
    """thorough tier: mutation adequacy of the contracts. Every seeded property-breaking change recorded under seeded/
    for this property (patch.diff against the repository; produced by people who saw only the property text) is applied
    to a scratch copy of the tree under check and the quick check is run against it. Reported, never a verdict: a change
    that is not noticed is a weakness of the contracts, not a violation of the property by the tree under check."""
    import glob, tempfile, subprocess, shutil
    import concurrent.futures as cff
    seeds = []
    for d in sorted(glob.glob(os.path.join(ROOT, "seeded", "*"))):
        mp = os.path.join(d, "meta.json")
        pp = os.path.join(d, "patch.diff")
        if not (os.path.exists(mp) and os.path.exists(pp)):
            continue
        m = load_json(mp, {})
        p = str(m.get("property", "")).split()[0].strip(",") if m.get("property") else ""
        if p != prop or not (m.get("confirmation", {}).get("confirmed", True)):
            continue
        seeds.append((os.path.basename(d), pp))

    def one(item):
        name, patch = item
        tmp = tempfile.mkdtemp(prefix="vxkill_")
        try:
            shutil.copytree(os.path.join(REPO, "src"), os.path.join(tmp, "src"))
            if subprocess.run(["git", "init", "-q"], cwd=tmp).returncode:
                return dict(seed=name, outcome="scratch copy failed")
            if subprocess.run(["git", "apply", "--unsafe-paths", patch], cwd=tmp, stdout=subprocess.PIPE, stderr=subprocess.PIPE).returncode:
                return dict(seed=name, outcome="patch does not apply to this tree")
            env = dict(os.environ, VERIF_REPO=tmp, VERIF_BUILD=os.path.join(tmp, "build"), VERIF_EVIDENCE=os.path.join(tmp, "evidence"), VERIF_REPLAY=os.path.join(tmp, "replay"),
                       VERIF_ORACLE_EXCLUDE=name)   # a seeded change is never confirmed by its own demonstration program
            r = subprocess.run([sys.executable, os.path.join(ROOT, "vx", "check.py"), "--property", prop, "--tier", "quick"], cwd=ROOT, env=env,
                               stdout=subprocess.PIPE, stderr=subprocess.STDOUT, text=True, timeout=3600)
            first = next((l for l in r.stdout.split("\n") if l.startswith("VIOLATION")), "") or next((l for l in r.stdout.split("\n") if l.startswith("UNDECIDED")), "")
            obl = first.split("obligation=")[1].split(" clause")[0] if "obligation=" in first else ""
            return dict(seed=name, outcome={0: "not noticed", 1: "reported", 2: "undecided"}.get(r.returncode, "exit %d" % r.returncode), obligation=obl)
        except Exception as e:
            return dict(seed=name, outcome="error: %s" % e)
        finally:
            shutil.rmtree(tmp, ignore_errors=True)

    with cff.ThreadPoolExecutor(jobs) as ex:
        rows = list(ex.map(one, seeds))
    return rows


ALGO_FILES = ["bfs.rs", "dfs.rs", "pfs.rs", "order.rs", "path.rs", "method.rs"]


def scan_c20():
    """C20 (iii): the algorithm files create no adjacency guard at all, hand only owned edges to the user's
    closure (`.exec(&edge)`), and the iterator structs of node/mod.rs store no guard -- so no guard can be
    live while user code runs inside a traversal or an edge loop."""
    obls, report = [], []
    for fl, info in gen.FLAVOURS.items():
        d = os.path.join(REPO, "src", info["dir"], "node")
        for af in ALGO_FILES:
            p = os.path.join(d, "algo", af)
            oid = "scan/%s/algo/%s" % (fl, af)
            try:
                src = open(p).read()
            except OSError as e:
                obls.append(dict(id=oid, flavour=fl, ok=False, why="file missing: %s" % e))
                continue
            m = mask(src)
            chains = [src.count("\n", 0, mm.start()) + 1 for mm in gen.CHAIN_RE.finditer(m)]
            raw = [src.count("\n", 0, mm.start()) + 1 for mm in re.finditer(r"\.\s*inner\b|\bborrow(_mut)?\s*\(|\.\s*(read|write)\s*\(\s*\)", m)]
            execs = re.findall(r"\.\s*exec\s*\(([^)]*)\)", m)
            bad_exec = [a for a in execs if a.strip() not in ("&edge", "e")]
            # every loop that hands edges to the closure pulls them lazily from the node's own iterator, so that an
            # edge is read from the adjacency list at the moment it is yielded (not from a snapshot taken earlier)
            stale = []
            for lp in gen.find_loops(m):
                body_txt = m[lp["hdr_end"]:lp["body_close"]]
                if ".exec(" in body_txt.replace(" ", "") and lp["kw"] == "for":
                    hdr = gen.norm_ws(m[lp["start"]:lp["hdr_end"]])
                    ok_hdr = bool(re.match(r"for \w+ in \w+ ?\. ?(iter|iter_out|iter_in) ?\( ?\)$", hdr))
                    mm_id = re.match(r"for \w+ in &? ?(\w+)$", hdr)
                    if not ok_hdr and mm_id:
                        # `for edge in &node` / `for edge in node` is IntoIterator for &Node, i.e. the same lazy iterator --
                        # unless the name is a local that was filled from an iterator or a collection beforehand (a snapshot)
                        nm = mm_id.group(1)
                        fn_start = m.rfind("fn ", 0, lp["start"])
                        binds = re.findall(r"let\s+(?:mut\s+)?%s\s*(?::[^=;]+)?=([^;]*);" % re.escape(nm), m[fn_start:lp["start"]])
                        snap = any(re.search(r"collect|Vec|vec!|to_vec|cloned|\.map\(|into_iter|\.iter", b_) for b_ in binds)
                        ok_hdr = not snap
                    if not ok_hdr:
                        stale.append("line %d: `%s`" % (src.count("\n", 0, lp["start"]) + 1, hdr))
                elif ".exec(" in body_txt.replace(" ", "") and lp["kw"] != "for" and not any(
                        l2["start"] > lp["start"] and l2["body_close"] < lp["body_close"] and ".exec(" in m[l2["hdr_end"]:l2["body_close"]].replace(" ", "") for l2 in gen.find_loops(m)):
                    stale.append("line %d: closure called outside a `for edge in node.iter*()` loop" % (src.count("\n", 0, lp["start"]) + 1))
            ok = not chains and not raw and not bad_exec and not stale
            why = "" if ok else "adjacency guard / lock access at lines %s; exec arguments %s; edges not pulled from the node iterator when yielded: %s" % (sorted(set(chains + raw)), bad_exec, stale)
            obls.append(dict(id=oid, flavour=fl, ok=ok, why=why))
        # iterator structs must not hold a guard
        p = os.path.join(d, "mod.rs")
        src = open(p).read()
        m = mask(src)
        for st in (["IterOut", "IterIn"] if info["directed"] else ["NodeIterator"]):
            oid = "scan/%s/node/mod.rs/struct %s" % (fl, st)
            mm = re.search(r"pub\s+struct\s+%s\b[^{;]*\{" % st, m)
            if not mm:
                obls.append(dict(id=oid, flavour=fl, ok=False, why="struct %s not found" % st))
                continue
            close = gen.match_close(m, mm.end() - 1)
            fields = gen.norm_ws(src[mm.end():close])
            ok = not re.search(r"\bRef(Mut)?\b|Guard\b|RefCell|RwLock|Mutex", fields)
            obls.append(dict(id=oid, flavour=fl, ok=ok, why="" if ok else "iterator struct stores a guard or lock: { %s }" % fields))
            report.append("%s fields: { %s }" % (oid, fields))
    return dict(obligations=obls, report=report)


def twin_table(results):
    """C15: plain function vs its sync twin: same contract object (same template block); identical text
    after the rewrite rules, or different text verified against the same contract."""
    rows = []
    pairs = {"dg": "sdg", "ug": "sug"}
    by = {}
    for (uname, fl), u in results.items():
        if u.get("error"):
            continue
        for f in u["gen"].fns:
            txt = "\n".join(u["gen"].lines[f["gen_start"]:f["gen_end"]])
            by[(uname, fl, f["id"])] = (gen.norm_ws(txt), u["obligations"].get(f["id"], {}).get("success"))
    for (uname, fl, fid), (txt, ok) in sorted(by.items()):
        if fl in pairs:
            t = by.get((uname, pairs[fl], fid))
            if t is None:
                rows.append(dict(function="%s/%s" % (uname, fid), plain=fl, sync=pairs[fl], status="no twin under contract"))
            else:
                rows.append(dict(function="%s/%s" % (uname, fid), plain=fl, sync=pairs[fl],
                                 same_contract=True, identical_dialect_text=(t[0] == txt), both_discharged=bool(ok and t[1])))
    return rows


def write_replay(prop, v):
    d = os.path.join(os.environ.get("VERIF_REPLAY") or os.path.join(ROOT, "replay"), prop)
    os.makedirs(d, exist_ok=True)
    name = re.sub(r"[^A-Za-z0-9_.-]", "_", v["obligation"]) + ".json"
    path = os.path.join(d, name)
    f = v["fn"]
    gen_text = ""
    try:
        lines = open(v["path"]).read().split("\n")
        if f:
            gen_text = "\n".join(lines[f["gen_start"] - 1:f["gen_end"]])
    except OSError:
        pass
    witness = find_witness(prop, v)
    json.dump(dict(property=prop, obligation=v["obligation"], failed_clauses=v["clause"],
                   source=f and "%s:%d-%d" % (f["file"], f["line_start"], f["line_end"]),
                   text_hash=f and f["hash"], functions_changed_vs_baseline=v["changed"],
                   generated_text=gen_text, verifier_output=[d_["rendered"] for d_ in v["diags"]],
                   proof_hints_that_could_not_be_placed=v.get("hints_lost", []),
                   counterexample=witness or "no-failing-input-found (Verus gives no model; see DESIGN §3.8)",
                   replay_cmd="python3 /verif/vx/check.py --unit %s --flavour %s --function '%s'" % (v["unit"], v["flavour"], v["obligation"].split("/", 2)[2])),
              open(path, "w"), indent=1)
    return path, witness


def confirmed_by_input(prop, obligation):
    """a refutation whose proof annotations were lost counts only if a failing input can be shown on the real code: a stored
    defect witness of this obligation, or one of the property's oracle programs, fails on the tree under check"""
    try:
        from vx import witness
        w = witness.try_witness(prop, dict(obligation=obligation), REPO) or witness.run_oracles(prop, REPO)
        return w
    except Exception:
        return None


def find_witness(prop, v):
    """witness programs (DESIGN §3.8): a stored program is attached only if it
    fails on the tree being checked."""
    try:
        from vx import witness
        w = witness.try_witness(prop, v, REPO)
        if w is None and v.get("hints_lost"):
            w = witness.run_oracles(prop, REPO)
        return w
    except Exception:
        return None


def evidence(dec, level_other=False):
    prop = dec["prop"]
    units = UNITS["units"]
    trusted = list(UNITS.get("trusted_base", []))
    notdec = UNITS.get("not_decided", {}).get(prop, [])
    ev = {
        "property_id": prop,
        "tier": dec["tier"],
        "seed": dec["seed"],
        "level": "proof",
        "coverage": {
            "obligations": dec["obligations"],
            "discharged": dec["discharged"],
            "checker_cmd": "verus <unit>_<flavour>.rs --triggers-mode silent --output-json --time --error-format=json --multiple-errors 3 (Verus 0.2026.09.13, bundled Z3; one file per unit and flavour, generated from /repo on this run)",
            "trusted_base": trusted,
            "units": ["%s/%s" % uf for uf in dec["ufs"]],
            "functions_under_contract": dec["fn_report"],
            "rewrite_rule_firings": dec["rules"],
            "vacuity_guard": "every extracted function re-verified against `ensures false` must fail: %s" % ("ok" if not any("vacuity" in u for u in dec["undecided"]) else "TRIPPED"),
            "clauses_not_decided": notdec,
            "known_findings_open": [k["what"] for k in dec["known_hits"]],
            "solver_ms": dec["smt_ms"],
            "back_end": "Verus 0.2026.09.13.671956e / Z3 (bundled)",
            "extra_seeds": dec["extra_seeds"],
            "undecided": dec["undecided"],
            "samples": dec["samples"] or [{"note": "no extracted function in this run"}],
            **dec.get("extra", {}),
            "exhaustive": False,
        },
        "assumptions": trusted + ["clauses of the property not decided by this check: " + "; ".join(notdec) if notdec else "all clauses listed in DESIGN §5 for this property are covered by obligations"],
        "wall_s": round(dec["wall"], 2),
        "violations": len(dec["violations"]),
    }
    os.makedirs(EVID, exist_ok=True)
    json.dump(ev, open(os.path.join(EVID, "%s.json" % prop), "w"), indent=1)


def main():
    ap = argparse.ArgumentParser()
    ap.add_argument("--property")
    ap.add_argument("--tier", default=os.environ.get("VERIF_TIER", "quick"))
    ap.add_argument("--record-baseline", action="store_true")
    ap.add_argument("--unit")
    ap.add_argument("--flavour")
    ap.add_argument("--function")
    ap.add_argument("--no-vacuity", action="store_true")
    a = ap.parse_args()
    seed = int(os.environ.get("VERIF_SEED", "1") or 1)
    if a.record_baseline:
        return record_baseline()
    if a.unit:
        fls = [a.flavour] if a.flavour else UNITS["units"][a.unit]["flavours"]
        rc = 0
        for fl in fls:
            u = verify_unit(a.unit, fl, vacuity=not a.no_vacuity)
            if u["error"]:
                print("ERROR", u["error"])
                rc = 2
                continue
            n_ok = sum(1 for o in u["obligations"].values() if o["success"])
            print("== %s/%s: %d/%d obligations discharged, %.1fs, vacuous=%s missing=%s" % (a.unit, fl, n_ok, len(u["obligations"]), u["wall"], u["vacuous"], u["missing"]))
            for fid, o in sorted(u["obligations"].items()):
                if a.function and a.function not in fid:
                    continue
                if not o["success"]:
                    rc = 1
                    print("-- FAILED %s" % fid)
                    for d in o["diags"]:
                        print(d["rendered"])
            for d in u["loose_diags"]:
                print("-- (unattributed)", d["rendered"])
        return rc
    if not a.property:
        ap.error("need --property")
    dec = decide(a.property, a.tier, seed)
    evidence(dec)
    for k in dec["known_hits"]:
        print("KNOWN-FINDING: property=%s %s" % (a.property, k["what"]))
    for u in dec["undecided"]:
        print("UNDECIDED: property=%s %s" % (a.property, u))
    rc = 0
    for v in dec["violations"]:
        path, witness = write_replay(a.property, v)
        print("VIOLATION property=%s replay=%s obligation=%s clause=[%s]%s %s" % (
            a.property, path, v["obligation"], v["clause"],
            " proof-hints-lost=%d" % len(v["hints_lost"]) if v.get("hints_lost") else "",
            "failing-input-attached" if witness else "no-failing-input-found"))
        rc = 1
    if rc == 0 and dec["undecided"]:
        rc = 2
    ma = dec.get("extra", {}).get("mutation_adequacy")
    if ma:
        for r in ma["rows"]:
            print("seeded-change %s: %s %s" % (r["seed"], r["outcome"], r.get("obligation", "")))
        print("mutation adequacy: %d of %d seeded changes of %s reported, %d undecided, %d not noticed" % (ma["reported"], ma["seeds"], a.property, ma["undecided"], ma["not_noticed"]))
    print("property %s tier %s: %d/%d obligations discharged, %d violations, %d undecided, %d known findings, %.1fs" % (
        a.property, a.tier, dec["discharged"], dec["obligations"], len(dec["violations"]), len(dec["undecided"]), len(dec["known_hits"]), dec["wall"]))
    return rc


if __name__ == "__main__":
    sys.exit(main())
