"""Run Verus on one generated file and collect per-function verdicts and
structured diagnostics."""
import json
import os
import re
import subprocess
import time

VERUS = "verus"


def run_verus(path, rlimit=None, seed=None, timeout=1800, extra=None, multiple_errors=3):
    cmd = [VERUS, os.path.basename(path), "--triggers-mode", "silent", "--output-json", "--time",
           "--error-format=json", "--multiple-errors", str(multiple_errors), "--num-threads", "6"]
    if rlimit:
        cmd += ["--rlimit", str(rlimit)]
    if seed:
        cmd += ["--smt-option", "smt.random_seed=%d" % seed, "--smt-option", "sat.random_seed=%d" % seed]
    if extra:
        cmd += extra
    t0 = time.time()
    try:
        p = subprocess.run(cmd, cwd=os.path.dirname(path), stdout=subprocess.PIPE, stderr=subprocess.PIPE,
                           text=True, timeout=timeout)
        out, err, rc = p.stdout, p.stderr, p.returncode
    except subprocess.TimeoutExpired as e:
        return dict(cmd=" ".join(cmd), rc=-9, wall=time.time() - t0, timeout=True, functions=[], diags=[],
                    fatal="verus timed out after %ds" % timeout, raw_err="")
    wall = time.time() - t0
    res = dict(cmd=" ".join(cmd), rc=rc, wall=wall, timeout=False, functions=[], diags=[], fatal=None, raw_err=err[-20000:])
    try:
        js = json.loads(out)
    except Exception:
        js = None
    if js:
        res["verification_results"] = js.get("verification-results")
        res["verus_version"] = (js.get("verus") or {}).get("version")
        t = js.get("times-ms") or {}
        res["smt_ms"] = (t.get("smt") or {}).get("smt-run")
        res["total_ms"] = t.get("total")
        for mod in (t.get("smt") or {}).get("smt-run-module-times", []):
            for f in mod.get("function-breakdown", []):
                res["functions"].append(dict(name=f["function"], mode=f.get("mode:") or f.get("mode"),
                                             ms=f.get("time"), rlimit=f.get("rlimit"), success=f.get("success")))
    for line in err.split("\n"):
        line = line.strip()
        if not line.startswith("{"):
            continue
        try:
            d = json.loads(line)
        except Exception:
            continue
        if d.get("level") not in ("error",):
            continue
        msg = d.get("message", "")
        if msg.startswith("aborting due to"):
            continue
        spans = d.get("spans") or []
        prim = [s for s in spans if s.get("is_primary")] or spans
        ln = prim[0]["line_start"] if prim else None
        other = [s["line_start"] for s in spans if not s.get("is_primary")]
        res["diags"].append(dict(message=msg, line=ln, other_lines=other, rendered=d.get("rendered", "")))
    vr = res.get("verification_results") or {}
    if js is None or vr.get("encountered-vir-error") or (rc != 0 and not res["functions"]):
        res["fatal"] = "verus did not reach verification (compile/VIR error or crash)"
    return res


# classification of diagnostics
REFUTE = ("postcondition not satisfied", "precondition not satisfied", "assertion failed", "invariant not satisfied",
          "possible arithmetic underflow/overflow", "decreases not satisfied", "possible division by zero",
          "recommendation not met", "unreachable", "loop invariant", "could not prove termination",
          "cannot show invariant", "index out of bounds", "possible bit shift", "unable to prove")
UNDECIDED = ("Resource limit", "rlimit", "timed out", "resource limit")


def classify(msg):
    low = msg.lower()
    for u in UNDECIDED:
        if u.lower() in low:
            return "undecided"
    for r in REFUTE:
        if r.lower() in low:
            return "refuted"
    return "other"
