#!/usr/bin/env python3
"""Writes MANIFEST.json from contracts/claims.json (claimed properties, level texts,
not-applicable reasons).  Run after editing claims.json."""
import json, os
ROOT = os.path.dirname(os.path.dirname(os.path.abspath(__file__)))
claims = json.load(open(os.path.join(ROOT, "contracts", "claims.json")))
props = [json.loads(l)["id"] for l in open(os.path.join(ROOT, "properties.jsonl")) if l.strip()]
checks = []
for pid in props:
    c = claims["claimed"].get(pid)
    if not c:
        continue
    checks.append({
        "property_id": pid,
        "quick_cmd": "python3 vx/check.py --property %s --tier quick" % pid,
        "thorough_cmd": "python3 vx/check.py --property %s --tier thorough" % pid,
        "evidence_file": "/verif/evidence/%s.json" % pid,
        "replay_cmd_template": "python3 vx/replay.py {path}",
        "engine": "verus-contracts",
        "level_claimed": {"category": "proof", "text": c["text"], "design_ref": c.get("design_ref", "DESIGN.md §5")},
        "level_note": c["note"],
        "technique": c.get("technique", "contract-based deductive verification: Verus (Z3) on function bodies extracted from /repo on every run"),
    })
na = [{"property_id": pid, "reason": claims["not_applicable"][pid]} for pid in props if pid not in claims["claimed"]]
for x in na:
    assert x["reason"]
m = {
    "version": 1,
    "setup_cmd": "python3 vx/setup.py",
    "hooks": {
        "guard": "gdsl_verif",
        "enable": "unused: the checks extract function texts from /repo's working tree and verify them with Verus; nothing is compiled into gdsl, so there is no hook to enable",
        "baseline_off_cmd": "cd /repo && cargo test --workspace --no-fail-fast --offline",
        "source_commits": [],
        "add_only": True,
    },
    "engines": [{
        "name": "verus-contracts",
        "path": "/verif/vx",
        "serves_properties": [c["property_id"] for c in checks],
        "kind_free_text": "extractor + rewrite rules R1-R20/R4b-e (vx/gen.py), contracts and lemmas (contracts/*.vx, *.rs), Verus 0.2026.09.13 as the deductive verifier, verdict/evidence driver (vx/check.py)",
    }],
    "checks": checks,
    "not_applicable": na,
    "notes": claims.get("notes", ""),
}
json.dump(m, open(os.path.join(ROOT, "MANIFEST.json"), "w"), indent=1)
print("MANIFEST.json: %d checks, %d not applicable" % (len(checks), len(na)))
