use vstd::prelude::*;
use vstd::std_specs::cmp::*;
use vstd::std_specs::iter::IteratorSpec;

use std::hash::Hash;
use std::collections::{HashSet, VecDeque};
verus! {

pub open spec fn lawful_key<K: PartialEq>() -> bool {
    K::obeys_eq_spec() && forall|x: K, y: K| #[trigger] x.eq_spec(&y) == (x == y)
}
pub open spec fn lawful_clone<T: Clone>() -> bool { forall|a: T, b: T| #[trigger] call_ensures(T::clone, (&a,), b) ==> a == b }

// ---------------- trusted environment: frozen graph ----------------
#[verifier::external_body]
#[verifier::accept_recursive_types(K)]
#[verifier::accept_recursive_types(N)]
#[verifier::accept_recursive_types(E)]
pub struct Node<K, N, E> { _p: core::marker::PhantomData<(K, N, E)> }

pub struct Edge<K, N, E>(pub Node<K, N, E>, pub Node<K, N, E>, pub E);
impl<K, N, E> Edge<K, N, E> {
    pub fn target(&self) -> (r: &Node<K, N, E>) ensures *r == self.1 {
        &self.1
    }
}

impl<K, N, E> Node<K, N, E> {
    pub uninterp spec fn k(&self) -> K;
    pub uninterp spec fn outs(&self) -> Seq<Edge<K, N, E>>;
    #[verifier::external_body]
    pub fn key(&self) -> (r: &K)
        ensures *r == self.k()
    { unimplemented!() }
    #[verifier::external_body]
    pub fn iter_out(&self) -> (r: IterOut<'_, K, N, E>)
        ensures r.rem() == self.outs(),
    { unimplemented!() }
}
impl<K, N, E> Clone for Node<K, N, E> {
    #[verifier::external_body]
    fn clone(&self) -> (r: Self)
        ensures r == *self
    { unimplemented!() }
}

#[verifier::external_body]
#[verifier::accept_recursive_types(K)]
#[verifier::accept_recursive_types(N)]
#[verifier::accept_recursive_types(E)]
pub struct IterOut<'a, K, N, E> { _p: core::marker::PhantomData<&'a (K, N, E)> }

impl<'a, K, N, E> Iterator for IterOut<'a, K, N, E> {
    type Item = Edge<K, N, E>;
    #[verifier::external_body]
    fn next(&mut self) -> (r: Option<Edge<K, N, E>>)
    { unimplemented!() }
}
impl<'a, K, N, E> IterOut<'a, K, N, E> {
    pub uninterp spec fn rem(&self) -> Seq<Edge<K, N, E>>;
}
impl<'a, K, N, E> vstd::std_specs::iter::IteratorSpecImpl for IterOut<'a, K, N, E> {
    open spec fn obeys_prophetic_iter_laws(&self) -> bool { true }
    open spec fn remaining(&self) -> Seq<Edge<K, N, E>> { self.rem() }
    open spec fn will_return_none(&self) -> bool { true }
    open spec fn decrease(&self) -> Option<nat> { Some(self.rem().len()) }
    open spec fn peek(&self, i: int) -> Option<Edge<K, N, E>> { if 0 <= i < self.rem().len() { Some(self.rem()[i]) } else { None } }
}


// Method shim: pure filter predicate, ghost log of exec'd edges
#[verifier::external_body]
#[verifier::accept_recursive_types(K)]
#[verifier::accept_recursive_types(N)]
#[verifier::accept_recursive_types(E)]
pub struct Method<'a, K, N, E> { _p: core::marker::PhantomData<&'a (K, N, E)> }
impl<'a, K, N, E> Method<'a, K, N, E> {
    pub uninterp spec fn accepts(&self, e: Edge<K, N, E>) -> bool;
    pub uninterp spec fn log(&self) -> Seq<Edge<K, N, E>>;
    #[verifier::external_body]
    pub fn exec(&mut self, e: &Edge<K, N, E>) -> (r: bool)
        ensures r == old(self).accepts(*e),
            forall|x: Edge<K, N, E>| final(self).accepts(x) == old(self).accepts(x),
            final(self).log() == old(self).log().push(*e),
    { unimplemented!() }
}

pub enum Transposition { Outbound, Inbound }

pub struct Bfs<'a, K, N, E>
{
    pub root: Node<K, N, E>,
    pub target: Option<K>,
    pub method: Method<'a, K, N, E>,
    pub transpose: Transposition,
}

// ---- spec vocabulary (frozen world, Outbound) ----
pub open spec fn in_adj<K, N, E>(e: Edge<K, N, E>) -> bool {
    exists|i: int| 0 <= i < e.0.outs().len() && e.0.outs()[i] == e
}
pub open spec fn outs_wf<K, N, E>(n: Node<K, N, E>) -> bool {
    forall|i: int| 0 <= i < n.outs().len() ==> (#[trigger] n.outs()[i]).0 == n
}
// result is an edge tree grown from `root`; `acc` is the filter
pub open spec fn tree<K, N, E>(r: Seq<Edge<K, N, E>>, root: Node<K, N, E>, acc: spec_fn(Edge<K, N, E>) -> bool) -> bool {
    &&& forall|i: int| 0 <= i < r.len() ==> in_adj(#[trigger] r[i]) && acc(r[i])
    &&& forall|i: int, j: int| 0 <= i < j < r.len() ==> (#[trigger] r[i]).1.k() != (#[trigger] r[j]).1.k()
    &&& forall|i: int| 0 <= i < r.len() ==> (#[trigger] r[i]).1.k() != root.k()
    &&& forall|i: int| 0 <= i < r.len() ==> (#[trigger] r[i]).0 == root || exists|j: int| 0 <= j < i && r[j].1 == r[i].0
}
pub open spec fn vis_ok<K, N, E>(vis: Set<K>, r: Seq<Edge<K, N, E>>, root: Node<K, N, E>) -> bool {
    forall|k: K| vis.contains(k) <==> (k == root.k() || exists|i: int| 0 <= i < r.len() && (#[trigger] r[i]).1.k() == k)
}
pub open spec fn src_ok<K, N, E>(n: Node<K, N, E>, r: Seq<Edge<K, N, E>>, root: Node<K, N, E>) -> bool {
    n == root || exists|j: int| 0 <= j < r.len() && (#[trigger] r[j]).1 == n
}


pub proof fn lemma_tree_push<K, N, E>(r: Seq<Edge<K, N, E>>, root: Node<K, N, E>, acc: spec_fn(Edge<K, N, E>) -> bool, vis: Set<K>, e: Edge<K, N, E>)
    requires tree(r, root, acc), vis_ok(vis, r, root), in_adj(e), acc(e), !vis.contains(e.1.k()), src_ok(e.0, r, root),
    ensures tree(r.push(e), root, acc), vis_ok(vis.insert(e.1.k()), r.push(e), root),
        forall|n: Node<K, N, E>| src_ok(n, r, root) ==> src_ok(n, r.push(e), root),
        src_ok(e.1, r.push(e), root),
{
    let r2 = r.push(e);
    assert forall|i: int| 0 <= i < r2.len() implies in_adj(#[trigger] r2[i]) && acc(r2[i]) by {
        if i < r.len() { assert(r2[i] == r[i]); }
    }
    assert forall|i: int, j: int| 0 <= i < j < r2.len() implies (#[trigger] r2[i]).1.k() != (#[trigger] r2[j]).1.k() by {
        if j < r.len() { assert(r2[i] == r[i] && r2[j] == r[j]); } else { assert(r2[i] == r[i]); assert(vis.contains(r[i].1.k())); }
    }
    assert forall|i: int| 0 <= i < r2.len() implies (#[trigger] r2[i]).1.k() != root.k() by {
        if i < r.len() { assert(r2[i] == r[i]); } else { assert(vis.contains(root.k())); }
    }
    assert forall|i: int| 0 <= i < r2.len() implies (#[trigger] r2[i]).0 == root || exists|j: int| 0 <= j < i && r2[j].1 == r2[i].0 by {
        if i < r.len() {
            assert(r2[i] == r[i]);
            if r[i].0 != root { let j = choose|j: int| 0 <= j < i && r[j].1 == r[i].0; assert(r2[j] == r[j]); }
        } else {
            if e.0 != root { let j = choose|j: int| 0 <= j < r.len() && (#[trigger] r[j]).1 == e.0; assert(r2[j] == r[j]); }
        }
    }
    assert forall|k: K| vis.insert(e.1.k()).contains(k) <==> (k == root.k() || exists|i: int| 0 <= i < r2.len() && (#[trigger] r2[i]).1.k() == k) by {
        if vis.insert(e.1.k()).contains(k) {
            if k == e.1.k() { assert(r2[r.len() as int].1.k() == k); }
            else if k != root.k() { let i = choose|i: int| 0 <= i < r.len() && (#[trigger] r[i]).1.k() == k; assert(r2[i] == r[i]); }
        } else {
            if exists|i: int| 0 <= i < r2.len() && (#[trigger] r2[i]).1.k() == k {
                let i = choose|i: int| 0 <= i < r2.len() && (#[trigger] r2[i]).1.k() == k;
                if i < r.len() { assert(r2[i] == r[i]); }
            }
        }
    }
    assert forall|n: Node<K, N, E>| src_ok(n, r, root) implies src_ok(n, r2, root) by {
        if n != root { let j = choose|j: int| 0 <= j < r.len() && (#[trigger] r[j]).1 == n; assert(r2[j] == r[j]); }
    }
    assert(r2[r.len() as int].1 == e.1);
}

impl<'a, K, N, E> Bfs<'a, K, N, E>
where
    K: Clone + Hash + PartialEq + Eq,
    N: Clone,
    E: Clone,
{
    pub open spec fn acc(&self) -> spec_fn(Edge<K, N, E>) -> bool { |e: Edge<K, N, E>| self.method.accepts(e) }

    #[verifier::exec_allows_no_decreases_clause]
    fn loop_outbound(
        &mut self,
        result: &mut Vec<Edge<K, N, E>>,
        visited: &mut HashSet<K>,
        queue: &mut VecDeque<Node<K, N, E>>,
    ) -> (r: bool)
        requires lawful_key::<K>(), lawful_clone::<K>(), vstd::std_specs::hash::obeys_key_model::<K>(),
            forall|n: Node<K, N, E>| outs_wf(n),
            tree(old(result)@, old(self).root, old(self).acc()),
            vis_ok(old(visited)@, old(result)@, old(self).root),
            forall|i: int| 0 <= i < old(queue)@.len() ==> src_ok(#[trigger] old(queue)@[i], old(result)@, old(self).root),
        ensures
            final(self).root == old(self).root, final(self).target == old(self).target,
            tree(final(result)@, old(self).root, old(self).acc()),
            vis_ok(final(visited)@, final(result)@, old(self).root),
            r ==> final(result)@.len() > 0 && old(self).target == Some(final(result)@.last().1.k()),
    {
        while let Some(node) = queue.pop_front()
            invariant
                lawful_key::<K>(), lawful_clone::<K>(), vstd::std_specs::hash::obeys_key_model::<K>(),
                forall|n: Node<K, N, E>| outs_wf(n),
                self.target == old(self).target, self.root == old(self).root,
                forall|x: Edge<K, N, E>| self.method.accepts(x) == old(self).method.accepts(x),
                tree(result@, old(self).root, old(self).acc()),
                vis_ok(visited@, result@, old(self).root),
                forall|i: int| 0 <= i < queue@.len() ==> src_ok(#[trigger] queue@[i], result@, old(self).root),
        {
            for edge in it: node.iter_out()
                invariant
                    lawful_key::<K>(), lawful_clone::<K>(), vstd::std_specs::hash::obeys_key_model::<K>(),
                    forall|n: Node<K, N, E>| outs_wf(n),
                    it.seq() == node.outs(),
                    src_ok(node, result@, old(self).root),
                    self.target == old(self).target, self.root == old(self).root,
                    forall|x: Edge<K, N, E>| self.method.accepts(x) == old(self).method.accepts(x),
                    tree(result@, old(self).root, old(self).acc()),
                    vis_ok(visited@, result@, old(self).root),
                    forall|i: int| 0 <= i < queue@.len() ==> src_ok(#[trigger] queue@[i], result@, old(self).root),
            {
                let ghost r0 = result@;
                let ghost v0 = visited@;
                if self.method.exec(&edge) {
                    let v = edge.1.clone();
                    if !visited.contains(v.key()) {
                        visited.insert(v.key().clone());
                        result.push(edge);
                        proof {
                            assert(edge == node.outs()[it.index@]);
                            assert(outs_wf(node));
                            assert(edge.0 == node);
                            lemma_tree_push(r0, old(self).root, old(self).acc(), v0, edge);
                        }
                        if let Some(ref t) = self.target {
                            if v.key() == t {
                                return true;
                            }
                        }
                        queue.push_back(v);
                    }
                }
            }
        }
        false
    }
}


pub struct Dfs<'a, K, N, E>
{
    pub root: Node<K, N, E>,
    pub target: Option<K>,
    pub method: Method<'a, K, N, E>,
    pub transpose: Transposition,
}
impl<'a, K, N, E> Dfs<'a, K, N, E>
where
    K: Clone + Hash + PartialEq + Eq,
    N: Clone,
    E: Clone,
{
    pub open spec fn acc(&self) -> spec_fn(Edge<K, N, E>) -> bool { |e: Edge<K, N, E>| self.method.accepts(e) }

    #[verifier::exec_allows_no_decreases_clause]
    fn recurse_outbound(
        &mut self,
        result: &mut Vec<Edge<K, N, E>>,
        visited: &mut HashSet<K>,
        queue: &mut Vec<Node<K, N, E>>,
    ) -> (r: bool)
        requires lawful_key::<K>(), lawful_clone::<K>(), vstd::std_specs::hash::obeys_key_model::<K>(),
            forall|n: Node<K, N, E>| outs_wf(n),
            tree(old(result)@, old(self).root, old(self).acc()),
            vis_ok(old(visited)@, old(result)@, old(self).root),
            forall|i: int| 0 <= i < old(queue)@.len() ==> src_ok(#[trigger] old(queue)@[i], old(result)@, old(self).root),
        ensures
            final(self).root == old(self).root, final(self).target == old(self).target,
            forall|x: Edge<K, N, E>| final(self).method.accepts(x) == old(self).method.accepts(x),
            tree(final(result)@, old(self).root, old(self).acc()),
            vis_ok(final(visited)@, final(result)@, old(self).root),
            forall|n: Node<K, N, E>| src_ok(n, old(result)@, old(self).root) ==> src_ok(n, final(result)@, old(self).root),
            forall|i: int| 0 <= i < final(queue)@.len() ==> src_ok(#[trigger] final(queue)@[i], final(result)@, old(self).root),
            r ==> final(result)@.len() > 0 && old(self).target == Some(final(result)@.last().1.k()),
    {
        if let Some(node) = queue.pop() {
            for edge in it: node.iter_out()
                invariant
                    lawful_key::<K>(), lawful_clone::<K>(), vstd::std_specs::hash::obeys_key_model::<K>(),
                    forall|n: Node<K, N, E>| outs_wf(n),
                    it.seq() == node.outs(),
                    src_ok(node, result@, old(self).root),
                    self.target == old(self).target, self.root == old(self).root,
                    forall|x: Edge<K, N, E>| self.method.accepts(x) == old(self).method.accepts(x),
                    tree(result@, old(self).root, old(self).acc()),
                    vis_ok(visited@, result@, old(self).root),
                    forall|n: Node<K, N, E>| src_ok(n, old(result)@, old(self).root) ==> src_ok(n, result@, old(self).root),
                    forall|i: int| 0 <= i < queue@.len() ==> src_ok(#[trigger] queue@[i], result@, old(self).root),
            {
                let ghost r0 = result@;
                let ghost v0 = visited@;
                if self.method.exec(&edge) {
                    let v = edge.target().clone();
                    if !visited.contains(v.key()) {
                        visited.insert(v.key().clone());
                        result.push(edge);
                        proof {
                            assert(edge == node.outs()[it.index@]);
                            assert(outs_wf(node));
                            assert(edge.0 == node);
                            lemma_tree_push(r0, old(self).root, old(self).acc(), v0, edge);
                        }
                        if let Some(ref t) = self.target {
                            if v.key() == t {
                                return true;
                            }
                        }
                        queue.push(v.clone());
                        if self.recurse_outbound(result, visited, queue) {
                            return true;
                        }
                    }
                }
            }
        }
        false
    }
}
}
fn main() {}
