use vstd::prelude::*;
use vstd::std_specs::cmp::*;
use std::hash::Hash;
verus! {

pub struct Edge<K, N, E>(pub Node<K, N, E>, pub Node<K, N, E>, pub E);

#[verifier::external_body]
pub fn unreachable_panic() -> ! requires false { panic!() }

#[derive(Debug)]
pub enum Error { EdgeNotFound, EdgeAlreadyExists }

pub open spec fn lawful_clone<T: Clone>() -> bool { forall|a: T, b: T| #[trigger] call_ensures(T::clone, (&a,), b) ==> a == b }
pub open spec fn lawful_key<K: PartialEq>() -> bool {
    K::obeys_eq_spec() && forall|x: K, y: K| #[trigger] x.eq_spec(&y) == (x == y)
}

// ---------------- trusted environment ----------------
#[verifier::external_body]
#[verifier::accept_recursive_types(K)]
#[verifier::accept_recursive_types(N)]
#[verifier::accept_recursive_types(E)]
pub struct WeakNode<K, N, E> { _p: core::marker::PhantomData<(K, N, E)> }

#[verifier::external_body]
#[verifier::accept_recursive_types(K)]
#[verifier::accept_recursive_types(N)]
#[verifier::accept_recursive_types(E)]
pub struct Node<K, N, E> { _p: core::marker::PhantomData<(K, N, E)> }

impl<K, N, E> WeakNode<K, N, E> {
    pub uninterp spec fn k(&self) -> K;
    #[verifier::external_body]
    pub fn upgrade(&self) -> (r: Option<Node<K, N, E>>)
        ensures r.is_some(), r.unwrap().k() == self.k()
    { unimplemented!() }
    #[verifier::external_body]
    pub fn downgrade(node: &Node<K, N, E>) -> (r: Self)
        ensures r.k() == node.k()
    { unimplemented!() }
}
impl<K, N, E> Node<K, N, E> {
    pub uninterp spec fn k(&self) -> K;
    #[verifier::external_body]
    pub fn key(&self) -> (r: &K)
        ensures *r == self.k()
    { unimplemented!() }
    #[verifier::external_body]
    pub fn clone(&self) -> (r: Self)
        ensures r.k() == self.k()
    { unimplemented!() }
}

pub type Ent<K, N, E> = (WeakNode<K, N, E>, E);
pub open spec fn ev<K, N, E>(s: Seq<Ent<K, N, E>>) -> Seq<(K, E)> { s.map_values(|e: Ent<K, N, E>| (e.0.k(), e.1)) }

// abstract list ops
pub open spec fn first_idx<K, E>(s: Seq<(K, E)>, k: K) -> int
    decreases s.len()
{
    if s.len() == 0 { -1 } else if s[0].0 == k { 0 } else { let r = first_idx(s.drop_first(), k); if r < 0 { -1 } else { r + 1 } }
}

// ---------------- extracted: adjacent.rs ----------------
pub struct Adjacent<K, N, E>
{
    pub outbound: Vec<(WeakNode<K, N, E>, E)>,
    pub inbound: Vec<(WeakNode<K, N, E>, E)>,
}

pub proof fn lemma_first_idx<K, E>(s: Seq<(K, E)>, k: K, i: int)
    requires 0 <= i <= s.len(), forall|j: int| 0 <= j < i ==> (#[trigger] s[j]).0 != k
    ensures i < s.len() && s[i].0 == k ==> first_idx(s, k) == i,
            i == s.len() ==> first_idx(s, k) == -1
    decreases s.len()
{
    if s.len() == 0 {
    } else if i == 0 {
    } else {
        let t = s.drop_first();
        assert forall|j: int| 0 <= j < i - 1 implies (#[trigger] t[j]).0 != k by { assert(t[j] == s[j + 1]); }
        lemma_first_idx(t, k, i - 1);
        if i < s.len() { assert(t[i - 1] == s[i]); }
    }
}

impl<K, N, E> Adjacent<K, N, E>
where
    K: Clone + Hash + PartialEq + Eq,
    N: Clone,
    E: Clone,
{
    pub open spec fn out(&self) -> Seq<(K, E)> { ev(self.outbound@) }
    pub open spec fn inn(&self) -> Seq<(K, E)> { ev(self.inbound@) }

    pub fn find_outbound(&self, node: &K) -> (r: Option<(&WeakNode<K, N, E>, &E)>)
        requires lawful_key::<K>()
        ensures
            r.is_none() <==> first_idx(self.out(), *node) < 0,
            r.is_some() ==> r.unwrap().0.k() == *node && *r.unwrap().1 == self.out()[first_idx(self.out(), *node)].1,
    {
        for edge in it: self.outbound.iter()
            invariant
                lawful_key::<K>(),
                forall|j: int| 0 <= j < it.index@ ==> (#[trigger] self.out()[j]).0 != *node,
        {
            if edge.0.upgrade().unwrap().key() == node {
                proof { lemma_first_idx(self.out(), *node, it.index@); }
                return Some((&edge.0, &edge.1));
            }
        }
        proof { lemma_first_idx(self.out(), *node, self.out().len() as int); }
        None
    }

    pub fn push_outbound(&mut self, edge: (Node<K, N, E>, E))
        ensures final(self).inn() == old(self).inn(),
            final(self).out() == old(self).out().push((edge.0.k(), edge.1)),
    {
        self.outbound.push((WeakNode::downgrade(&edge.0), edge.1));
        proof { assert(final(self).out() =~= old(self).out().push((edge.0.k(), edge.1))); }
    }

    pub fn push_inbound(&mut self, edge: (Node<K, N, E>, E))
        ensures final(self).out() == old(self).out(),
            final(self).inn() == old(self).inn().push((edge.0.k(), edge.1)),
    {
        self.inbound.push((WeakNode::downgrade(&edge.0), edge.1));
        proof { assert(final(self).inn() =~= old(self).inn().push((edge.0.k(), edge.1))); }
    }

    pub fn remove_inbound(&mut self, source: &K) -> (r: Result<E, Error>)
        requires lawful_key::<K>()
        ensures
            final(self).out() == old(self).out(),
            r.is_err() <==> first_idx(old(self).inn(), *source) < 0,
            r.is_err() ==> final(self).inn() == old(self).inn(),
            r.is_ok() ==> final(self).inn() == old(self).inn().remove(first_idx(old(self).inn(), *source))
                && r.unwrap() == old(self).inn()[first_idx(old(self).inn(), *source)].1,
    {
        for idx in 0..self.inbound.len()
            invariant
                lawful_key::<K>(),
                *self == *old(self),
                forall|j: int| 0 <= j < idx ==> (#[trigger] self.inn()[j]).0 != *source,
        {
            let edge = &self.inbound[idx];
            if edge.0.upgrade().unwrap().key() == source {
                proof { lemma_first_idx(self.inn(), *source, idx as int); }
                let x = self.inbound.remove(idx).1;
                proof { assert(final(self).inn() =~= old(self).inn().remove(idx as int)); }
                return Ok(x);
            }
        }
        proof { lemma_first_idx(self.inn(), *source, self.inn().len() as int); }
        Err(Error::EdgeNotFound)
    }
    pub fn remove_outbound(&mut self, target: &K) -> (r: Result<E, Error>)
        requires lawful_key::<K>()
        ensures
            final(self).inn() == old(self).inn(),
            r.is_err() <==> first_idx(old(self).out(), *target) < 0,
            r.is_err() ==> final(self).out() == old(self).out(),
            r.is_ok() ==> final(self).out() == old(self).out().remove(first_idx(old(self).out(), *target))
                && r.unwrap() == old(self).out()[first_idx(old(self).out(), *target)].1,
    {
        for idx in 0..self.outbound.len()
            invariant
                lawful_key::<K>(),
                *self == *old(self),
                forall|j: int| 0 <= j < idx ==> (#[trigger] self.out()[j]).0 != *target,
        {
            let edge = &self.outbound[idx];
            if edge.0.upgrade().unwrap().key() == target {
                proof { lemma_first_idx(self.out(), *target, idx as int); }
                let x = self.outbound.remove(idx).1;
                proof { assert(final(self).out() =~= old(self).out().remove(idx as int)); }
                return Ok(x);
            }
        }
        proof { lemma_first_idx(self.out(), *target, self.out().len() as int); }
        Err(Error::EdgeNotFound)
    }
}


// ---------------- trusted heap ----------------
#[verifier::external_body]
#[verifier::accept_recursive_types(K)]
#[verifier::accept_recursive_types(N)]
#[verifier::accept_recursive_types(E)]
pub struct Heap<K, N, E> { _p: core::marker::PhantomData<(K, N, E)> }

impl<K, N, E> Heap<K, N, E> {
    pub uninterp spec fn dom(&self) -> Set<K>;
    pub uninterp spec fn cell(&self, k: K) -> Adjacent<K, N, E>;

    #[verifier::external_body]
    pub fn adj(&self, n: &Node<K, N, E>) -> (r: &Adjacent<K, N, E>)
        requires self.dom().contains(n.k())
        ensures *r == self.cell(n.k())
    { unimplemented!() }

    #[verifier::external_body]
    pub fn adj_mut(&mut self, n: &Node<K, N, E>) -> (r: &mut Adjacent<K, N, E>)
        requires old(self).dom().contains(n.k())
        ensures *r == old(self).cell(n.k()),
            final(self).dom() == old(self).dom(),
            forall|k: K| k != n.k() ==> #[trigger] final(self).cell(k) == old(self).cell(k),
            final(self).cell(n.k()) == *final(r),
    { unimplemented!() }
}

impl<K, N, E> Heap<K, N, E>
where
    K: Clone + Hash + PartialEq + Eq,
    N: Clone,
    E: Clone,
{
    pub open spec fn out(&self, k: K) -> Seq<(K, E)> { self.cell(k).out() }
    pub open spec fn inn(&self, k: K) -> Seq<(K, E)> { self.cell(k).inn() }
    // all peers are live members
    pub open spec fn closed(&self) -> bool {
        forall|u: K, i: int| self.dom().contains(u) && 0 <= i < self.out(u).len() ==> self.dom().contains(#[trigger] self.out(u)[i].0)
    }
}

impl<K, N, E> Node<K, N, E>
where
    K: Clone + Hash + PartialEq + Eq,
    N: Clone,
    E: Clone,
{
    pub fn connect(&self, other: &Self, value: E, heap: &mut Heap<K, N, E>)
        requires lawful_clone::<E>(), old(heap).dom().contains(self.k()), old(heap).dom().contains(other.k()),
        ensures
            final(heap).dom() == old(heap).dom(),
            self.k() != other.k() ==> {
                &&& final(heap).out(self.k()) == old(heap).out(self.k()).push((other.k(), value))
                &&& final(heap).inn(self.k()) == old(heap).inn(self.k())
                &&& final(heap).inn(other.k()) == old(heap).inn(other.k()).push((self.k(), value))
                &&& final(heap).out(other.k()) == old(heap).out(other.k())
            },
            self.k() == other.k() ==> {
                &&& final(heap).out(self.k()) == old(heap).out(self.k()).push((other.k(), value))
                &&& final(heap).inn(self.k()) == old(heap).inn(self.k()).push((self.k(), value))
            },
            forall|k: K| k != self.k() && k != other.k() ==> #[trigger] final(heap).cell(k) == old(heap).cell(k),
    {
        heap.adj_mut(&self)
            .push_outbound((other.clone(), value.clone()));
        heap.adj_mut(&other)
            .push_inbound((self.clone(), value));
    }

    pub fn find_outbound(&self, other: &K, heap: &Heap<K, N, E>) -> (r: Option<Node<K, N, E>>)
        requires lawful_key::<K>(), heap.dom().contains(self.k()),
        ensures r.is_some() <==> first_idx(heap.out(self.k()), *other) >= 0,
            r.is_some() ==> r.unwrap().k() == *other,
            r.is_some() && heap.closed() ==> heap.dom().contains(*other),
    {
        proof {
            lemma_proj_first(heap.out(self.k()), *other);
            let i = first_idx(heap.out(self.k()), *other);
            if i >= 0 && heap.closed() { assert(heap.dom().contains(heap.out(self.k())[i].0)); }
        }
        let edge = heap.adj(&self);
        let edge = edge.find_outbound(other);
        edge.map(|edge: (&WeakNode<K, N, E>, &E)| -> (r: Node<K, N, E>) ensures r.k() == edge.0.k() { edge.0.upgrade().unwrap() })
    }
}

// projection of a list on one peer
pub open spec fn proj<K, E>(s: Seq<(K, E)>, k: K) -> Seq<E>
    decreases s.len()
{
    if s.len() == 0 { Seq::empty() } else if s[0].0 == k { seq![s[0].1] + proj(s.drop_first(), k) } else { proj(s.drop_first(), k) }
}
#[verifier::external_body]
pub proof fn lemma_proj_first<K, E>(s: Seq<(K, E)>, k: K)
    ensures first_idx(s, k) >= 0 <==> proj(s, k).len() > 0,
        first_idx(s, k) >= 0 ==> s[first_idx(s, k)].1 == proj(s, k)[0] && 0 <= first_idx(s, k) < s.len(),
        first_idx(s, k) >= 0 ==> s[first_idx(s, k)].0 == k,
{}
#[verifier::external_body]
pub proof fn lemma_proj_remove<K, E>(s: Seq<(K, E)>, k: K, k2: K)
    requires first_idx(s, k) >= 0
    ensures proj(s.remove(first_idx(s, k)), k) == proj(s, k).drop_first(),
        k2 != k ==> proj(s.remove(first_idx(s, k)), k2) == proj(s, k2),
{}

impl<K, N, E> Heap<K, N, E>
where
    K: Clone + Hash + PartialEq + Eq,
    N: Clone,
    E: Clone,
{
    pub open spec fn mirror(&self) -> bool {
        forall|u: K, v: K| self.dom().contains(u) && self.dom().contains(v) ==> proj(self.out(u), v) == #[trigger] proj(self.inn(v), u)
    }
}

impl<K, N, E> Node<K, N, E>
where
    K: Clone + Hash + PartialEq + Eq,
    N: Clone,
    E: Clone,
{
    pub fn disconnect(&self, other: &K, heap: &mut Heap<K, N, E>) -> (r: Result<E, Error>)
        requires lawful_key::<K>(), old(heap).dom().contains(self.k()), old(heap).closed(), old(heap).mirror(),
        ensures
            final(heap).dom() == old(heap).dom(),
            r.is_err() <==> first_idx(old(heap).out(self.k()), *other) < 0,
            r.is_err() ==> forall|k: K| #[trigger] final(heap).cell(k) == old(heap).cell(k),
            r.is_ok() ==> {
                let i = first_idx(old(heap).out(self.k()), *other);
                let j = first_idx(old(heap).inn(*other), self.k());
                &&& j >= 0
                &&& r.unwrap() == old(heap).out(self.k())[i].1
                &&& r.unwrap() == old(heap).inn(*other)[j].1
                &&& *other != self.k() ==> final(heap).out(self.k()) == old(heap).out(self.k()).remove(i)
                        && final(heap).inn(*other) == old(heap).inn(*other).remove(j)
                        && final(heap).inn(self.k()) == old(heap).inn(self.k())
                        && final(heap).out(*other) == old(heap).out(*other)
                &&& *other == self.k() ==> final(heap).out(self.k()) == old(heap).out(self.k()).remove(i)
                        && final(heap).inn(*other) == old(heap).inn(*other).remove(j)
                &&& forall|k: K| k != self.k() && k != *other ==> #[trigger] final(heap).cell(k) == old(heap).cell(k)
            },
    {
        proof {
            lemma_proj_first(old(heap).out(self.k()), *other);
            lemma_proj_first(old(heap).inn(*other), self.k());
        }
        match self.find_outbound(other, heap) {
            Some(other) => match heap.adj_mut(&self).remove_outbound(other.key()) {
                Ok(edge) => {
                    heap.adj_mut(&other).remove_inbound(self.key())?;
                    Ok(edge)
                }
                Err(err) => Err(err),
            },
            None => Err(Error::EdgeNotFound),
        }
    }
}

pub struct IterOut<'a, K, N, E> {
    pub node: &'a Node<K, N, E>,
    pub position: usize,
}

impl<K, N, E> Adjacent<K, N, E>
where
    K: Clone + Hash + PartialEq + Eq,
    N: Clone,
    E: Clone,
{
    pub fn get_outbound(&self, idx: usize) -> (r: Option<(&WeakNode<K, N, E>, &E)>)
        ensures idx < self.out().len() ==> r.is_some() && r.unwrap().0.k() == self.out()[idx as int].0 && *r.unwrap().1 == self.out()[idx as int].1,
            idx >= self.out().len() ==> r.is_none(),
            self.out().len() <= usize::MAX,
    {
        proof { assert(self.out().len() == self.outbound@.len()); assert(self.outbound@.len() == self.outbound.len()); }
        self.outbound.get(idx).map(|edge: &(WeakNode<K, N, E>, E)| -> (r: (&WeakNode<K, N, E>, &E)) ensures r.0 == &edge.0, r.1 == &edge.1 { (&edge.0, &edge.1) })
    }
}

impl<'a, K, N, E> IterOut<'a, K, N, E>
where
    K: Clone + Hash + PartialEq + Eq,
    N: Clone,
    E: Clone,
{
    pub fn next(&mut self, heap: &Heap<K, N, E>) -> (r: Option<Edge<K, N, E>>)
        requires lawful_clone::<E>(), heap.dom().contains(old(self).node.k()),
        ensures final(self).node == old(self).node,
            old(self).position < heap.out(old(self).node.k()).len() ==> r.is_some()
                && final(self).position == old(self).position + 1
                && r.unwrap().0.k() == old(self).node.k()
                && r.unwrap().1.k() == heap.out(old(self).node.k())[old(self).position as int].0
                && r.unwrap().2 == heap.out(old(self).node.k())[old(self).position as int].1,
            old(self).position >= heap.out(old(self).node.k()).len() ==> r.is_none() && final(self).position == old(self).position,
    {
        match heap.adj(&self.node).get_outbound(self.position) {
            Some(current) => match current.0.upgrade() {
                Some(node) => {
                    self.position += 1;
                    Some(Edge(self.node.clone(), node, current.1.clone()))
                }
                None => {
                    unreachable_panic()
                }
            },
            None => None,
        }
    }
}

impl<K, N, E> Node<K, N, E>
where
    K: Clone + Hash + PartialEq + Eq,
    N: Clone,
    E: Clone,
{
    pub fn iter_out(&self) -> (r: IterOut<'_, K, N, E>)
        ensures r.node == self, r.position == 0
    {
        IterOut {
            node: self,
            position: 0,
        }
    }

    // acceptance probe only: first loop of isolate, desugared by R9; the counting invariant is NOT written here
    pub fn isolate_loop1(&self, heap: &mut Heap<K, N, E>)
        requires lawful_key::<K>(), lawful_clone::<E>(), old(heap).dom().contains(self.k()), old(heap).closed(),
    {
        let mut it = self.iter_out();
        loop
            invariant lawful_key::<K>(), lawful_clone::<E>(), heap.dom() == old(heap).dom(), heap.dom().contains(self.k()), it.node == self,
                heap.out(self.k()) == old(heap).out(self.k()), heap.closed(), it.position <= heap.out(self.k()).len(),
            decreases heap.out(self.k()).len() - it.position
        {
            match it.next(heap) {
                Some(Edge(_, v, _)) => {
                    proof { assume(first_idx(heap.inn(v.k()), self.k()) >= 0); }   // <- the counting argument of DESIGN C01 goes here
                    heap.adj_mut(&v).remove_inbound(self.key()).unwrap();
                    proof { assume(heap.closed()); assume(heap.out(self.k()) == old(heap).out(self.k())); }
                }
                None => break,
            }
        }
    }
}
}
fn main() {}
