use vstd::prelude::*;
use vstd::std_specs::cmp::*;
use vstd::std_specs::iter::IteratorSpec;

use std::hash::Hash;
use std::collections::{HashSet, VecDeque};
verus! {

pub open spec fn lawful_key<K: PartialEq>() -> bool {
    K::obeys_eq_spec() && forall|x: K, y: K| #[trigger] x.eq_spec(&y) == (x == y)
}
pub open spec fn lawful_clone<T: Clone>() -> bool { forall|a: T, b: T| #[trigger] call_ensures(T::clone, (&a,), b) ==> a == b }

// ---------------- trusted environment: frozen graph ----------------
#[verifier::external_body]
#[verifier::accept_recursive_types(K)]
#[verifier::accept_recursive_types(N)]
#[verifier::accept_recursive_types(E)]
pub struct Node<K, N, E> { _p: core::marker::PhantomData<(K, N, E)> }

pub struct Edge<K, N, E>(pub Node<K, N, E>, pub Node<K, N, E>, pub E);

impl<K, N, E> Node<K, N, E> {
    pub uninterp spec fn k(&self) -> K;
    pub uninterp spec fn outs(&self) -> Seq<Edge<K, N, E>>;
    #[verifier::external_body]
    pub fn key(&self) -> (r: &K)
        ensures *r == self.k()
    { unimplemented!() }
    #[verifier::external_body]
    pub fn iter_out(&self) -> (r: IterOut<'_, K, N, E>)
        ensures r.rem() == self.outs(),
    { unimplemented!() }
}
impl<K, N, E> Clone for Node<K, N, E> {
    #[verifier::external_body]
    fn clone(&self) -> (r: Self)
        ensures r == *self
    { unimplemented!() }
}

#[verifier::external_body]
#[verifier::accept_recursive_types(K)]
#[verifier::accept_recursive_types(N)]
#[verifier::accept_recursive_types(E)]
pub struct IterOut<'a, K, N, E> { _p: core::marker::PhantomData<&'a (K, N, E)> }

impl<'a, K, N, E> Iterator for IterOut<'a, K, N, E> {
    type Item = Edge<K, N, E>;
    #[verifier::external_body]
    fn next(&mut self) -> (r: Option<Edge<K, N, E>>)
    { unimplemented!() }
}
impl<'a, K, N, E> IterOut<'a, K, N, E> {
    pub uninterp spec fn rem(&self) -> Seq<Edge<K, N, E>>;
}
impl<'a, K, N, E> vstd::std_specs::iter::IteratorSpecImpl for IterOut<'a, K, N, E> {
    open spec fn obeys_prophetic_iter_laws(&self) -> bool { true }
    open spec fn remaining(&self) -> Seq<Edge<K, N, E>> { self.rem() }
    open spec fn will_return_none(&self) -> bool { true }
    open spec fn decrease(&self) -> Option<nat> { Some(self.rem().len()) }
    open spec fn peek(&self, i: int) -> Option<Edge<K, N, E>> { if 0 <= i < self.rem().len() { Some(self.rem()[i]) } else { None } }
}


// Method shim: pure filter predicate, ghost log of exec'd edges
#[verifier::external_body]
#[verifier::accept_recursive_types(K)]
#[verifier::accept_recursive_types(N)]
#[verifier::accept_recursive_types(E)]
pub struct Method<'a, K, N, E> { _p: core::marker::PhantomData<&'a (K, N, E)> }
impl<'a, K, N, E> Method<'a, K, N, E> {
    pub uninterp spec fn accepts(&self, e: Edge<K, N, E>) -> bool;
    pub uninterp spec fn log(&self) -> Seq<Edge<K, N, E>>;
    #[verifier::external_body]
    pub fn exec(&mut self, e: &Edge<K, N, E>) -> (r: bool)
        ensures r == old(self).accepts(*e),
            forall|x: Edge<K, N, E>| final(self).accepts(x) == old(self).accepts(x),
            final(self).log() == old(self).log().push(*e),
    { unimplemented!() }
}

pub enum Transposition { Outbound, Inbound }

pub struct Bfs<'a, K, N, E>
{
    pub root: Node<K, N, E>,
    pub target: Option<K>,
    pub method: Method<'a, K, N, E>,
    pub transpose: Transposition,
}


impl<K: PartialEq, N, E> PartialEq for Node<K, N, E> {
    fn eq(&self, other: &Self) -> (r: bool)
    {
        self.key() == other.key()
    }
}
impl<K: PartialEq, N, E> vstd::std_specs::cmp::PartialEqSpecImpl for Node<K, N, E> {
    open spec fn obeys_eq_spec() -> bool { lawful_key::<K>() }
    open spec fn eq_spec(&self, other: &Self) -> bool { self.k() == other.k() }
}
impl<K, N, E: Clone> Clone for Edge<K, N, E> {
    #[verifier::external_body]
    fn clone(&self) -> (r: Self)
        ensures r.0 == self.0, r.1 == self.1, cloned(self.2, r.2)
    { unimplemented!() }
}
pub assume_specification<T>[ <[T]>::reverse ](s: &mut [T])
    ensures final(s)@ == old(s)@.reverse();

pub fn backtrack_edge_tree<K, N, E>(edge_tree: Vec<Edge<K, N, E>>) -> (p: Vec<Edge<K, N, E>>)
where
    K: Clone + Hash + PartialEq + Eq,
    N: Clone,
    E: Clone,
    requires edge_tree.len() > 0
{
    let mut path = Vec::new();

    if edge_tree.len() == 1 {
        path.push(edge_tree[0].clone());
        return path;
    }
    let w = edge_tree.last().unwrap();
    path.push(w.clone());
    let mut i = 0;
    for edge in it: edge_tree.iter().rev()
        invariant i < path.len(), path.len() <= it.index@ + 1, it.seq().len() == edge_tree.len(),
    {
        let Edge(_, v, _) = edge;
        let Edge(s, _, _) = &path[i];
        if s == v {
            path.push(edge.clone());
            i += 1;
        }
    }
    path.reverse();
    path
}
}
fn main() {}
