use vstd::prelude::*;
use vstd::std_specs::cmp::*;
use vstd::std_specs::iter::IteratorSpec;

use std::hash::Hash;
use std::collections::{HashSet, VecDeque};
verus! {

pub open spec fn lawful_key<K: PartialEq>() -> bool {
    K::obeys_eq_spec() && forall|x: K, y: K| #[trigger] x.eq_spec(&y) == (x == y)
}
pub open spec fn lawful_clone<T: Clone>() -> bool { forall|a: T, b: T| #[trigger] call_ensures(T::clone, (&a,), b) ==> a == b }

// ---------------- trusted environment: frozen graph ----------------
#[verifier::external_body]
#[verifier::accept_recursive_types(K)]
#[verifier::accept_recursive_types(N)]
#[verifier::accept_recursive_types(E)]
pub struct Node<K, N, E> { _p: core::marker::PhantomData<(K, N, E)> }

pub struct Edge<K, N, E>(pub Node<K, N, E>, pub Node<K, N, E>, pub E);

impl<K, N, E> Node<K, N, E> {
    pub uninterp spec fn k(&self) -> K;
    pub uninterp spec fn outs(&self) -> Seq<Edge<K, N, E>>;
    #[verifier::external_body]
    pub fn key(&self) -> (r: &K)
        ensures *r == self.k()
    { unimplemented!() }
    #[verifier::external_body]
    pub fn iter_out(&self) -> (r: IterOut<'_, K, N, E>)
        ensures r.rem() == self.outs(),
    { unimplemented!() }
}
impl<K, N, E> Clone for Node<K, N, E> {
    #[verifier::external_body]
    fn clone(&self) -> (r: Self)
        ensures r == *self
    { unimplemented!() }
}

#[verifier::external_body]
#[verifier::accept_recursive_types(K)]
#[verifier::accept_recursive_types(N)]
#[verifier::accept_recursive_types(E)]
pub struct IterOut<'a, K, N, E> { _p: core::marker::PhantomData<&'a (K, N, E)> }

impl<'a, K, N, E> Iterator for IterOut<'a, K, N, E> {
    type Item = Edge<K, N, E>;
    #[verifier::external_body]
    fn next(&mut self) -> (r: Option<Edge<K, N, E>>)
    { unimplemented!() }
}
impl<'a, K, N, E> IterOut<'a, K, N, E> {
    pub uninterp spec fn rem(&self) -> Seq<Edge<K, N, E>>;
}
impl<'a, K, N, E> vstd::std_specs::iter::IteratorSpecImpl for IterOut<'a, K, N, E> {
    open spec fn obeys_prophetic_iter_laws(&self) -> bool { true }
    open spec fn remaining(&self) -> Seq<Edge<K, N, E>> { self.rem() }
    open spec fn will_return_none(&self) -> bool { true }
    open spec fn decrease(&self) -> Option<nat> { Some(self.rem().len()) }
    open spec fn peek(&self, i: int) -> Option<Edge<K, N, E>> { if 0 <= i < self.rem().len() { Some(self.rem()[i]) } else { None } }
}

fn count<K, N, E>(n: &Node<K, N, E>) -> (c: usize)
    requires n.outs().len() < 1000
    ensures c == n.outs().len()
{
    let mut c: usize = 0;
    for edge in it: n.iter_out()
        invariant c == it.index@, it.seq() == n.outs(), c <= 1000, n.outs().len() < 1000,
    {
        c = c + 1;
    }
    c
}

}
fn main() {}
