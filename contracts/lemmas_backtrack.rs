// ===== lemmas_backtrack.rs : contract vocabulary of backtrack_edge_tree =====

// what backtrack_edge_tree may assume about an edge tree (by key, as `==` on nodes is by key):
// targets pairwise distinct, every source is the root or an earlier target, and only the last
// edge may lead back to the root
#[verifier::opaque]
pub open spec fn bt_tree<K, N, E>(t: Seq<Edge<K, N, E>>, rootk: K) -> bool {
    &&& t.len() > 0
    &&& forall|i: int, j: int| 0 <= i < j < t.len() ==> (#[trigger] t[i]).1.k() != (#[trigger] t[j]).1.k()
    &&& forall|i: int| 0 <= i < t.len() ==> (#[trigger] t[i]).0.k() == rootk || exists|j: int| 0 <= j < i && t[j].1.k() == t[i].0.k()
    &&& forall|i: int| 0 <= i < t.len() - 1 ==> (#[trigger] t[i]).1.k() != rootk
}

// p picks the entries idx[0] < idx[1] < ... of t
pub open spec fn subseq_by<K, N, E>(p: Seq<Edge<K, N, E>>, t: Seq<Edge<K, N, E>>, idx: Seq<int>) -> bool {
    &&& idx.len() == p.len()
    &&& forall|m: int| 0 <= m < p.len() ==> 0 <= #[trigger] idx[m] < t.len() && p[m] == t[idx[m]]
    &&& forall|m: int, n: int| 0 <= m < n < p.len() ==> #[trigger] idx[m] < #[trigger] idx[n]
}

// the path returned for tree t: ends with t's last edge, starts at the root, consecutive edges
// joined, a subsequence of t (so every edge is an edge of t, none twice), no intermediate
// node is the root
#[verifier::opaque]
pub open spec fn bt_path<K, N, E>(p: Seq<Edge<K, N, E>>, t: Seq<Edge<K, N, E>>, rootk: K) -> bool {
    &&& p.len() > 0
    &&& p.last() == t.last()
    &&& p[0].0.k() == rootk
    &&& forall|m: int| 0 <= m < p.len() - 1 ==> (#[trigger] p[m]).1.k() == p[m + 1].0.k()
    &&& forall|m: int| 1 <= m < p.len() ==> (#[trigger] p[m]).0.k() != rootk
    &&& exists|idx: Seq<int>| subseq_by(p, t, idx)
}

// reversed working list used by the loop: rp[0] = t.last(), rp[m] = t[ridx[m]] with ridx decreasing
pub open spec fn rev_chain<K, N, E>(rp: Seq<Edge<K, N, E>>, t: Seq<Edge<K, N, E>>, ridx: Seq<int>) -> bool {
    &&& ridx.len() == rp.len()
    &&& rp.len() > 0
    &&& ridx[0] == t.len() - 1
    &&& forall|m: int| 0 <= m < rp.len() ==> 0 <= #[trigger] ridx[m] < t.len() && rp[m] == t[ridx[m]]
    &&& forall|m: int, n: int| 0 <= m < n < rp.len() ==> #[trigger] ridx[m] > #[trigger] ridx[n]
    &&& forall|m: int| 0 <= m < rp.len() - 1 ==> (#[trigger] rp[m]).0.k() == rp[m + 1].1.k()
}

pub proof fn lemma_rev_chain_finish<K, N, E>(rp: Seq<Edge<K, N, E>>, t: Seq<Edge<K, N, E>>, ridx: Seq<int>, rootk: K)
    requires bt_tree(t, rootk), rev_chain(rp, t, ridx),
        // nothing below the last picked entry leads to its source
        forall|j: int| 0 <= j < ridx.last() ==> (#[trigger] t[j]).1.k() != rp.last().0.k(),
    ensures bt_path(rp.reverse(), t, rootk)
{
    reveal(bt_tree); reveal(bt_path);
    let p = rp.reverse();
    let idx = ridx.reverse();
    let n = rp.len() as int;
    assert(p.last() == rp[0]);
    assert(p[0] == rp[n - 1]);
    // the first edge starts at the root
    let li = ridx[n - 1];
    assert(rp[n - 1] == t[li]);
    assert(t[li].0.k() == rootk) by {
        if t[li].0.k() != rootk {
            let j = choose|j: int| 0 <= j < li && t[j].1.k() == t[li].0.k();
            assert(t[j].1.k() != rp.last().0.k());
        }
    }
    assert forall|m: int| 0 <= m < p.len() - 1 implies (#[trigger] p[m]).1.k() == p[m + 1].0.k() by {
        assert(p[m] == rp[n - 1 - m]);
        assert(p[m + 1] == rp[n - 2 - m]);
        assert(rp[n - 2 - m].0.k() == rp[n - 2 - m + 1].1.k());
    }
    assert forall|m: int| 1 <= m < p.len() implies (#[trigger] p[m]).0.k() != rootk by {
        // p[m].0 is the target of p[m-1], an entry of t that is not the last one
        assert(p[m] == rp[n - 1 - m]);
        assert(p[m - 1] == rp[n - m]);
        assert(rp[n - 1 - m].0.k() == rp[n - 1 - m + 1].1.k());
        let jj = ridx[n - m];
        assert(rp[n - m] == t[jj]);
        assert(ridx[0] > ridx[n - m]);
        assert(jj < t.len() - 1);
    }
    assert(subseq_by(p, t, idx)) by {
        assert forall|m: int| 0 <= m < p.len() implies 0 <= #[trigger] idx[m] < t.len() && p[m] == t[idx[m]] by {
            assert(idx[m] == ridx[n - 1 - m]);
        }
        assert forall|m: int, k: int| 0 <= m < k < p.len() implies #[trigger] idx[m] < #[trigger] idx[k] by {
            assert(idx[m] == ridx[n - 1 - m]);
            assert(idx[k] == ridx[n - 1 - k]);
        }
    }
}

// a tree in the sense of the searches is a tree in the sense of backtracking
pub proof fn lemma_tree_bt<K, N, E>(r: Seq<Edge<K, N, E>>, root: Node<K, N, E>, acc: spec_fn(Edge<K, N, E>) -> bool, adj: spec_fn(Node<K, N, E>) -> Seq<Edge<K, N, E>>)
    requires tree(r, root, acc, adj), r.len() > 0,
        forall|i: int| 0 <= i < r.len() - 1 ==> (#[trigger] r[i]).1.k() != root.k(),
    ensures bt_tree(r, root.k())
{
    reveal(bt_tree);
    reveal(tree);    assert forall|i: int| 0 <= i < r.len() implies (#[trigger] r[i]).0.k() == root.k() || exists|j: int| 0 <= j < i && r[j].1.k() == r[i].0.k() by {
        if r[i].0 != root {
            let j = choose|j: int| 0 <= j < i && r[j].1 == r[i].0;
            assert(r[j].1.k() == r[i].0.k());
        }
    }
}

// what a backtracked path of a search tree is, in graph terms: a path of existing accepted
// edges from the root to the last target, visiting no node twice
pub proof fn lemma_bt_is_path<K, N, E>(p: Seq<Edge<K, N, E>>, r: Seq<Edge<K, N, E>>, root: Node<K, N, E>, acc: spec_fn(Edge<K, N, E>) -> bool, adj: spec_fn(Node<K, N, E>) -> Seq<Edge<K, N, E>>)
    requires graph_ok(adj), universe::<K, N, E>().contains(root), tree(r, root, acc, adj), bt_path(p, r, root.k()),
    ensures is_path(p, root, acc, adj),
        p.last() == r.last(),
        forall|m: int, n: int| 0 <= m < n < p.len() ==> (#[trigger] p[m]).1.k() != (#[trigger] p[n]).1.k(),
        forall|m: int| 1 <= m < p.len() ==> (#[trigger] p[m]).0.k() != root.k(),
{
    reveal(bt_path); reveal(is_path); reveal(keys_distinct);
    reveal(tree);    let idx = choose|idx: Seq<int>| subseq_by(p, r, idx);
    assert forall|m: int| 0 <= m < p.len() implies universe::<K, N, E>().contains((#[trigger] p[m]).0) && universe::<K, N, E>().contains(p[m].1) && in_adj(p[m], adj) && acc(p[m]) by {
        let e = r[idx[m]];
        assert(p[m] == e);
        let j = choose|j: int| 0 <= j < adj(e.0).len() && (#[trigger] adj(e.0)[j]) == e;
        assert(universe::<K, N, E>().contains(adj(e.0)[j].1));
    }
    assert(p[0].0 == root);
    assert forall|m: int| 0 <= m < p.len() - 1 implies (#[trigger] p[m]).1 == p[m + 1].0 by {
        assert(universe::<K, N, E>().contains(p[m].1));
        assert(universe::<K, N, E>().contains(p[m + 1].0));
    }
    assert forall|m: int, n: int| 0 <= m < n < p.len() implies (#[trigger] p[m]).1.k() != (#[trigger] p[n]).1.k() by {
        assert(idx[m] < idx[n]);
        assert(p[m] == r[idx[m]] && p[n] == r[idx[n]]);
    }
}

// only the last edge of the tree may lead back to the root
pub open spec fn closes_last<K, N, E>(t: Seq<Edge<K, N, E>>, rootk: K) -> bool {
    forall|i: int| 0 <= i < t.len() - 1 ==> (#[trigger] t[i]).1.k() != rootk
}

// the statement of C04/C05/C09 about a returned path, relative to the search tree r it was
// extracted from: existing accepted edges joined end to start from the root to the target of
// r's last edge, no node entered twice, no intermediate node is the root, every edge is an
// edge of r
#[verifier::opaque]
pub open spec fn good_path<K, N, E>(p: Seq<Edge<K, N, E>>, r: Seq<Edge<K, N, E>>, root: Node<K, N, E>, acc: spec_fn(Edge<K, N, E>) -> bool, adj: spec_fn(Node<K, N, E>) -> Seq<Edge<K, N, E>>) -> bool {
    &&& is_path(p, root, acc, adj)
    &&& p.last() == r.last()
    &&& forall|m: int, n: int| 0 <= m < n < p.len() ==> (#[trigger] p[m]).1.k() != (#[trigger] p[n]).1.k()
    &&& forall|m: int| 1 <= m < p.len() ==> (#[trigger] p[m]).0.k() != root.k()
    &&& exists|idx: Seq<int>| subseq_by(p, r, idx)
}

pub proof fn lemma_bt_path_last<K, N, E>(p: Seq<Edge<K, N, E>>, t: Seq<Edge<K, N, E>>, rootk: K)
    requires bt_path(p, t, rootk)
    ensures p.len() > 0, p.last() == t.last()
{
    reveal(bt_path);
}

pub proof fn lemma_good_path<K, N, E>(p: Seq<Edge<K, N, E>>, r: Seq<Edge<K, N, E>>, root: Node<K, N, E>, acc: spec_fn(Edge<K, N, E>) -> bool, adj: spec_fn(Node<K, N, E>) -> Seq<Edge<K, N, E>>)
    requires graph_ok(adj), universe::<K, N, E>().contains(root), tree(r, root, acc, adj), r.len() > 0, closes_last(r, root.k()),
        bt_tree(r, root.k()) ==> bt_path(p, r, root.k()),
    ensures good_path(p, r, root, acc, adj)
{
    reveal(good_path); reveal(bt_path);
    lemma_tree_bt(r, root, acc, adj);
    lemma_bt_is_path(p, r, root, acc, adj);
}
