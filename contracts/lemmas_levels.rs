// ===== lemmas_levels.rs : breadth-first levels (C04 / C09 "fewest edges"). Pure; no gdsl code. =====

// index of the tree edge that enters the source of edge i (unique: targets are distinct)
pub open spec fn parent_idx<K, N, E>(r: Seq<Edge<K, N, E>>, i: int) -> int {
    choose|j: int| 0 <= j < i && (#[trigger] r[j]).1 == r[i].0
}
// number of edges on the tree path from the root to the target of edge i
pub open spec fn plen<K, N, E>(r: Seq<Edge<K, N, E>>, root: Node<K, N, E>, i: int) -> nat
    decreases i
{
    if i < 0 || i >= r.len() { 0 }
    else if r[i].0 == root { 1 }
    else if exists|j: int| 0 <= j < i && (#[trigger] r[j]).1 == r[i].0 { 1 + plen(r, root, parent_idx(r, i)) }
    else { 0 }
}

// depth bookkeeping of a breadth-first search: dep is defined on the root and on every visited key;
// every recorded edge goes one level down
pub open spec fn levels<K, N, E>(r: Seq<Edge<K, N, E>>, dep: Map<K, nat>, root: Node<K, N, E>, vis: Set<K>) -> bool {
    &&& dep.dom().contains(root.k()) && dep[root.k()] == 0
    &&& forall|k: K| vis.contains(k) ==> dep.dom().contains(k)
    &&& forall|i: int| 0 <= i < r.len() ==> dep.dom().contains((#[trigger] r[i]).0.k()) && dep.dom().contains(r[i].1.k()) && dep[r[i].1.k()] == dep[r[i].0.k()] + 1
}

pub proof fn lemma_plen_dep<K, N, E>(r: Seq<Edge<K, N, E>>, dep: Map<K, nat>, root: Node<K, N, E>, vis: Set<K>, acc: spec_fn(Edge<K, N, E>) -> bool, adj: spec_fn(Node<K, N, E>) -> Seq<Edge<K, N, E>>, i: int)
    requires tree(r, root, acc, adj), levels(r, dep, root, vis), 0 <= i < r.len()
    ensures plen(r, root, i) == dep[r[i].1.k()]
    decreases i
{
    reveal(tree);
    if r[i].0 != root {
        let j = parent_idx(r, i);
        lemma_plen_dep(r, dep, root, vis, acc, adj, j);
    }
}

// the backtracked path has exactly plen edges
pub proof fn lemma_path_plen<K, N, E>(p: Seq<Edge<K, N, E>>, r: Seq<Edge<K, N, E>>, idx: Seq<int>, root: Node<K, N, E>, acc: spec_fn(Edge<K, N, E>) -> bool, adj: spec_fn(Node<K, N, E>) -> Seq<Edge<K, N, E>>, m: int)
    requires graph_ok(adj), universe::<K, N, E>().contains(root), tree(r, root, acc, adj), subseq_by(p, r, idx), is_path(p, root, acc, adj), 0 <= m < p.len(),
        forall|a: int| 1 <= a < p.len() ==> (#[trigger] p[a]).0.k() != root.k(),
    ensures plen(r, root, idx[m]) == m + 1
    decreases m
{
    reveal(tree); reveal(is_path);
    if m == 0 {
        assert(p[0] == r[idx[0]]);
    } else {
        lemma_path_plen(p, r, idx, root, acc, adj, m - 1);
        let i = idx[m];
        assert(p[m] == r[i] && p[m - 1] == r[idx[m - 1]]);
        assert(p[m - 1].1 == p[m].0);
        assert(r[i].0.k() != root.k());
        assert(r[i].0 != root);
        let j = parent_idx(r, i);
        // uniqueness of the parent: targets are distinct
        assert(idx[m - 1] < i);
        assert(r[idx[m - 1]].1 == r[i].0);
        if j != idx[m - 1] {
            if j < idx[m - 1] { assert(r[j].1.k() != r[idx[m - 1]].1.k()); } else { assert(r[idx[m - 1]].1.k() != r[j].1.k()); }
        }
    }
}

// all accepted edges of n lead to visited nodes that are at most one level below n
pub open spec fn closed_lvl<K, N, E>(n: Node<K, N, E>, vis: Set<K>, dep: Map<K, nat>, acc: spec_fn(Edge<K, N, E>) -> bool, adj: spec_fn(Node<K, N, E>) -> Seq<Edge<K, N, E>>) -> bool {
    forall|i: int| 0 <= i < adj(n).len() && acc(#[trigger] adj(n)[i]) ==> vis.contains(adj(n)[i].1.k()) && dep[adj(n)[i].1.k()] <= dep[n.k()] + 1
}
pub open spec fn lvl_upto<K, N, E>(n: Node<K, N, E>, m: int, vis: Set<K>, dep: Map<K, nat>, acc: spec_fn(Edge<K, N, E>) -> bool, adj: spec_fn(Node<K, N, E>) -> Seq<Edge<K, N, E>>) -> bool {
    forall|i: int| 0 <= i < m && i < adj(n).len() && acc(#[trigger] adj(n)[i]) ==> vis.contains(adj(n)[i].1.k()) && dep[adj(n)[i].1.k()] <= dep[n.k()] + 1
}

// the breadth-first level invariant: d is the level being expanded; pending nodes are on level d or d+1 in
// non-decreasing order; everything visited that is neither pending nor being expanded is on a level <= d and
// has all its accepted edges leading at most one level down
pub open spec fn lvl_inv<K, N, E>(dep: Map<K, nat>, vis: Set<K>, root: Node<K, N, E>, q: Seq<Node<K, N, E>>, cur: Option<Node<K, N, E>>, d: nat, acc: spec_fn(Edge<K, N, E>) -> bool, adj: spec_fn(Node<K, N, E>) -> Seq<Edge<K, N, E>>) -> bool {
    &&& dep.dom().contains(root.k()) && dep[root.k()] == 0
    &&& forall|k: K| vis.contains(k) ==> dep.dom().contains(k)
    &&& forall|i: int| 0 <= i < q.len() ==> d <= dep[(#[trigger] q[i]).k()] <= d + 1
    &&& forall|i: int, j: int| 0 <= i < j < q.len() ==> dep[(#[trigger] q[i]).k()] <= dep[(#[trigger] q[j]).k()]
    &&& cur.is_some() ==> dep[cur.unwrap().k()] == d
    &&& forall|n: Node<K, N, E>| #[trigger] universe::<K, N, E>().contains(n) && (vis.contains(n.k()) || n == root) && !q.contains(n) && cur != Some(n)
            ==> dep[n.k()] <= d && closed_lvl(n, vis, dep, acc, adj)
}

// along any accepted path of at most d edges from the root, every node is visited on a level not below its position
pub proof fn lemma_path_levels<K, N, E>(dep: Map<K, nat>, vis: Set<K>, root: Node<K, N, E>, q: Seq<Node<K, N, E>>, cur: Option<Node<K, N, E>>, d: nat, acc: spec_fn(Edge<K, N, E>) -> bool, adj: spec_fn(Node<K, N, E>) -> Seq<Edge<K, N, E>>, p: Seq<Edge<K, N, E>>, i: int)
    requires graph_ok(adj), universe::<K, N, E>().contains(root), lvl_inv(dep, vis, root, q, cur, d, acc, adj), is_path(p, root, acc, adj), 1 <= i <= p.len(), i <= d,
    ensures vis.contains(p[i - 1].1.k()), dep[p[i - 1].1.k()] <= i, universe::<K, N, E>().contains(p[i - 1].1)
    decreases i
{
    lemma_path_in_uni(root, acc, adj, p, i - 1);
    let e = p[i - 1];
    let y = e.0;
    if i > 1 {
        lemma_path_levels(dep, vis, root, q, cur, d, acc, adj, p, i - 1);
        assert(p[i - 2].1 == p[i - 1].0) by { reveal(is_path); }
    } else {
        assert(y == root) by { reveal(is_path); }
    }
    // y is on a level < d, so it is neither pending nor being expanded
    assert(dep[y.k()] <= i - 1);
    assert(!q.contains(y)) by {
        if q.contains(y) { let a = choose|a: int| 0 <= a < q.len() && q[a] == y; assert(d <= dep[q[a].k()]); }
    }
    assert(cur != Some(y));
    assert(closed_lvl(y, vis, dep, acc, adj));
    assert(in_adj(e, adj) && acc(e)) by { reveal(is_path); }
    let j = choose|j: int| 0 <= j < adj(e.0).len() && (#[trigger] adj(e.0)[j]) == e;
    assert(acc(adj(y)[j]));
}

// C04: when a node on level d discovers an unvisited node, no accepted path from the root reaches that node
// with d or fewer edges
pub proof fn lemma_bfs_shortest<K, N, E>(dep: Map<K, nat>, vis: Set<K>, root: Node<K, N, E>, q: Seq<Node<K, N, E>>, cur: Option<Node<K, N, E>>, d: nat, acc: spec_fn(Edge<K, N, E>) -> bool, adj: spec_fn(Node<K, N, E>) -> Seq<Edge<K, N, E>>, t: K)
    requires graph_ok(adj), universe::<K, N, E>().contains(root), lvl_inv(dep, vis, root, q, cur, d, acc, adj), !vis.contains(t)
    ensures forall|p: Seq<Edge<K, N, E>>| #[trigger] is_path(p, root, acc, adj) && p.last().1.k() == t ==> p.len() >= d + 1
{
    assert forall|p: Seq<Edge<K, N, E>>| #[trigger] is_path(p, root, acc, adj) && p.last().1.k() == t implies p.len() >= d + 1 by {
        assert(p.len() > 0) by { reveal(is_path); }
        if p.len() <= d {
            lemma_path_levels(dep, vis, root, q, cur, d, acc, adj, p, p.len() as int);
        }
    }
}

// ---- maintenance of the level invariant ----
pub proof fn lemma_lvl_pop<K, N, E>(dep: Map<K, nat>, vis: Set<K>, root: Node<K, N, E>, q: Seq<Node<K, N, E>>, d: nat, acc: spec_fn(Edge<K, N, E>) -> bool, adj: spec_fn(Node<K, N, E>) -> Seq<Edge<K, N, E>>)
    requires q.len() > 0, lvl_inv(dep, vis, root, q, None, d, acc, adj), dep[q[0].k()] == d, keys_distinct::<K, N, E>(),
        forall|i: int| 0 <= i < q.len() ==> universe::<K, N, E>().contains(#[trigger] q[i]),
    ensures lvl_inv(dep, vis, root, q.drop_first(), Some(q[0]), d, acc, adj)
{
    let q2 = q.drop_first();
    assert forall|i: int| 0 <= i < q2.len() implies d <= dep[(#[trigger] q2[i]).k()] <= d + 1 by { assert(q2[i] == q[i + 1]); }
    assert forall|i: int, j: int| 0 <= i < j < q2.len() implies dep[(#[trigger] q2[i]).k()] <= dep[(#[trigger] q2[j]).k()] by { assert(q2[i] == q[i + 1] && q2[j] == q[j + 1]); }
    assert forall|n: Node<K, N, E>| #[trigger] universe::<K, N, E>().contains(n) && (vis.contains(n.k()) || n == root) && !q2.contains(n) && Some(q[0]) != Some(n)
        implies dep[n.k()] <= d && closed_lvl(n, vis, dep, acc, adj) by {
        if q.contains(n) {
            let a = choose|a: int| 0 <= a < q.len() && q[a] == n;
            assert(a > 0);
            assert(q2[a - 1] == n);
        }
    }
}

// the node being expanded is finished: the next pending node (if any) determines the level
pub proof fn lemma_lvl_done<K, N, E>(dep: Map<K, nat>, vis: Set<K>, root: Node<K, N, E>, q: Seq<Node<K, N, E>>, node: Node<K, N, E>, d: nat, acc: spec_fn(Edge<K, N, E>) -> bool, adj: spec_fn(Node<K, N, E>) -> Seq<Edge<K, N, E>>)
    requires lvl_inv(dep, vis, root, q, Some(node), d, acc, adj), closed_lvl(node, vis, dep, acc, adj)
    ensures lvl_inv(dep, vis, root, q, None, if q.len() > 0 { dep[q[0].k()] } else { d }, acc, adj)
{
    let d2: nat = if q.len() > 0 { dep[q[0].k()] } else { d };
    if q.len() > 0 { assert(d <= dep[q[0].k()] <= d + 1); }
    assert forall|i: int| 0 <= i < q.len() implies d2 <= dep[(#[trigger] q[i]).k()] <= d2 + 1 by {
        if i > 0 { assert(dep[q[0].k()] <= dep[q[i].k()]); }
    }
    assert forall|n: Node<K, N, E>| #[trigger] universe::<K, N, E>().contains(n) && (vis.contains(n.k()) || n == root) && !q.contains(n) && None::<Node<K, N, E>> != Some(n)
        implies dep[n.k()] <= d2 && closed_lvl(n, vis, dep, acc, adj) by {
        if n == node { } else { assert(Some(node) != Some(n)); }
    }
}

// a new node v is discovered from `node` (level d): it is put on level d+1 at the end of the queue
pub proof fn lemma_lvl_push<K, N, E>(dep: Map<K, nat>, vis: Set<K>, root: Node<K, N, E>, q: Seq<Node<K, N, E>>, node: Node<K, N, E>, d: nat, acc: spec_fn(Edge<K, N, E>) -> bool, adj: spec_fn(Node<K, N, E>) -> Seq<Edge<K, N, E>>, v: Node<K, N, E>)
    requires lvl_inv(dep, vis, root, q, Some(node), d, acc, adj), !vis.contains(v.k()), v.k() != root.k(), keys_distinct::<K, N, E>(), universe::<K, N, E>().contains(v),
        forall|i: int| 0 <= i < q.len() ==> universe::<K, N, E>().contains(#[trigger] q[i]) && (vis.contains(q[i].k()) || q[i] == root),
        universe::<K, N, E>().contains(node), vis.contains(node.k()) || node == root,
    ensures lvl_inv(dep.insert(v.k(), d + 1), vis.insert(v.k()), root, q.push(v), Some(node), d, acc, adj)
{
    let dep2 = dep.insert(v.k(), (d + 1) as nat);
    let vis2 = vis.insert(v.k());
    let q2 = q.push(v);
    assert forall|i: int| 0 <= i < q2.len() implies d <= dep2[(#[trigger] q2[i]).k()] <= d + 1 by {
        if i < q.len() { assert(q2[i] == q[i]); assert(q[i].k() != v.k()); }
    }
    assert forall|i: int, j: int| 0 <= i < j < q2.len() implies dep2[(#[trigger] q2[i]).k()] <= dep2[(#[trigger] q2[j]).k()] by {
        assert(q2[i] == q[i]); assert(q[i].k() != v.k());
        if j < q.len() { assert(q2[j] == q[j]); assert(q[j].k() != v.k()); }
    }
    assert(node.k() != v.k());
    assert forall|n: Node<K, N, E>| #[trigger] universe::<K, N, E>().contains(n) && (vis2.contains(n.k()) || n == root) && !q2.contains(n) && Some(node) != Some(n)
        implies dep2[n.k()] <= d && closed_lvl(n, vis2, dep2, acc, adj) by {
        if n.k() == v.k() { lemma_keys(n, v); assert(q2[q.len() as int] == v); }
        else {
            assert(!q.contains(n)) by { if q.contains(n) { let a = choose|a: int| 0 <= a < q.len() && q[a] == n; assert(q2[a] == n); } }
            assert(closed_lvl(n, vis, dep, acc, adj));
            assert forall|i: int| 0 <= i < adj(n).len() && acc(#[trigger] adj(n)[i]) implies vis2.contains(adj(n)[i].1.k()) && dep2[adj(n)[i].1.k()] <= dep2[n.k()] + 1 by {
                assert(vis.contains(adj(n)[i].1.k()));
            }
        }
    }
}

// an already visited universe node is on a level <= d+1
pub proof fn lemma_lvl_bound<K, N, E>(dep: Map<K, nat>, vis: Set<K>, root: Node<K, N, E>, q: Seq<Node<K, N, E>>, node: Node<K, N, E>, d: nat, acc: spec_fn(Edge<K, N, E>) -> bool, adj: spec_fn(Node<K, N, E>) -> Seq<Edge<K, N, E>>, w: Node<K, N, E>)
    requires lvl_inv(dep, vis, root, q, Some(node), d, acc, adj), universe::<K, N, E>().contains(w), vis.contains(w.k()) || w == root
    ensures dep[w.k()] <= d + 1
{
    if q.contains(w) { let a = choose|a: int| 0 <= a < q.len() && q[a] == w; assert(dep[q[a].k()] <= d + 1); }
}

// adding an edge at the end does not change the path lengths of the earlier edges
pub proof fn lemma_plen_push<K, N, E>(r: Seq<Edge<K, N, E>>, root: Node<K, N, E>, e: Edge<K, N, E>, i: int)
    requires 0 <= i < r.len(), distinct_targets(r)
    ensures plen(r.push(e), root, i) == plen(r, root, i)
    decreases i
{
    let r2 = r.push(e);
    assert(r2[i] == r[i]);
    if r[i].0 != root {
        if exists|j: int| 0 <= j < i && (#[trigger] r[j]).1 == r[i].0 {
            let j0 = parent_idx(r, i);
            assert(r2[j0] == r[j0]);
            assert(exists|j: int| 0 <= j < i && (#[trigger] r2[j]).1 == r2[i].0);
            let j2 = parent_idx(r2, i);
            assert(r2[j2] == r[j2]);
            if j0 != j2 {
                if j0 < j2 { assert(r[j0].1.k() != r[j2].1.k()); } else { assert(r[j2].1.k() != r[j0].1.k()); }
            }
            lemma_plen_push(r, root, e, j0);
        } else {
            assert forall|j: int| 0 <= j < i implies (#[trigger] r2[j]).1 != r2[i].0 by { assert(r2[j] == r[j]); }
        }
    }
}

// the tree path to a newly recorded edge whose source is on level lvl has lvl+1 edges
pub proof fn lemma_plen_last<K, N, E>(r0: Seq<Edge<K, N, E>>, e: Edge<K, N, E>, dep: Map<K, nat>, root: Node<K, N, E>, vis: Set<K>, acc: spec_fn(Edge<K, N, E>) -> bool, adj: spec_fn(Node<K, N, E>) -> Seq<Edge<K, N, E>>, lvl: nat)
    requires tree(r0, root, acc, adj), tree(r0.push(e), root, acc, adj), levels(r0, dep, root, vis), dep.dom().contains(e.0.k()), dep[e.0.k()] == lvl,
    ensures plen(r0.push(e), root, r0.len() as int) == lvl + 1
{
    reveal(tree);
    let r2 = r0.push(e);
    let i = r0.len() as int;
    assert(r2[i] == e);
    if e.0 != root {
        let j = parent_idx(r2, i);
        assert(r2[j] == r0[j]);
        lemma_plen_push(r0, root, e, j);
        lemma_plen_dep(r0, dep, root, vis, acc, adj, j);
        assert(r0[j].1 == e.0);
    }
}

pub proof fn lemma_levels_push<K, N, E>(r0: Seq<Edge<K, N, E>>, dep: Map<K, nat>, root: Node<K, N, E>, vis: Set<K>, acc: spec_fn(Edge<K, N, E>) -> bool, adj: spec_fn(Node<K, N, E>) -> Seq<Edge<K, N, E>>, e: Edge<K, N, E>, lvl: nat)
    requires tree(r0, root, acc, adj), vis_sup(vis, r0), levels(r0, dep, root, vis), dep.dom().contains(e.0.k()), dep[e.0.k()] == lvl,
        !vis.contains(e.1.k()), e.1.k() != root.k(), e.0.k() != e.1.k(),
    ensures levels(r0.push(e), dep.insert(e.1.k(), (lvl + 1) as nat), root, vis.insert(e.1.k()))
{
    reveal(tree);
    let r2 = r0.push(e);
    let dep2 = dep.insert(e.1.k(), (lvl + 1) as nat);
    assert forall|i: int| 0 <= i < r2.len() implies dep2.dom().contains((#[trigger] r2[i]).0.k()) && dep2.dom().contains(r2[i].1.k()) && dep2[r2[i].1.k()] == dep2[r2[i].0.k()] + 1 by {
        if i < r0.len() {
            assert(r2[i] == r0[i]);
            assert(vis.contains(r0[i].1.k()));
            if r0[i].0 != root { let j = choose|j: int| 0 <= j < i && r0[j].1 == r0[i].0; assert(vis.contains(r0[j].1.k())); }
        }
    }
}

// the path that backtracking extracts from a search tree has as many edges as the tree path to its last edge
pub proof fn lemma_good_path_len<K, N, E>(p: Seq<Edge<K, N, E>>, r: Seq<Edge<K, N, E>>, root: Node<K, N, E>, acc: spec_fn(Edge<K, N, E>) -> bool, adj: spec_fn(Node<K, N, E>) -> Seq<Edge<K, N, E>>)
    requires graph_ok(adj), universe::<K, N, E>().contains(root), tree(r, root, acc, adj), r.len() > 0, good_path(p, r, root, acc, adj)
    ensures p.len() == plen(r, root, r.len() - 1)
{
    reveal(good_path);
    let idx = choose|idx: Seq<int>| subseq_by(p, r, idx);
    let m = p.len() - 1;
    assert(p.len() > 0) by { reveal(is_path); }
    lemma_path_plen(p, r, idx, root, acc, adj, m);
    // the last picked index is the last index of r (targets are distinct)
    assert(p[m] == r[idx[m]]);
    assert(p.last() == r.last());
    if idx[m] != r.len() - 1 {
        reveal(tree);
        assert(r[idx[m]].1.k() != r[r.len() - 1].1.k());
    }
}
