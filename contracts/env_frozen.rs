// ===== env_frozen.rs : TRUSTED environment of the frozen world (DESIGN §3.3, §8) =====
// With a pure filter the adjacency cannot change during a search: Node is an opaque value
// whose adjacency is an uninterpreted sequence of edges; iterators are shims whose remaining
// sequence is that adjacency (glue assumption §3.3: iterators over an unchanged heap yield the
// list in order -- the per-step half is verified in the heap world).

pub open spec fn lawful_clone<T: Clone>() -> bool {
    forall|a: T, b: T| #[trigger] call_ensures(T::clone, (&a,), b) ==> a == b
}
pub open spec fn lawful_key<K: PartialEq>() -> bool {
    K::obeys_eq_spec() && forall|x: K, y: K| #[trigger] x.eq_spec(&y) == (x == y)
}

#[verifier::external_body]
#[verifier::accept_recursive_types(K)]
#[verifier::accept_recursive_types(N)]
#[verifier::accept_recursive_types(E)]
pub struct Node<K, N, E> { _p: core::marker::PhantomData<(K, N, E)> }

pub struct Edge<K, N, E>(pub Node<K, N, E>, pub Node<K, N, E>, pub E);

impl<K, N, E> Node<K, N, E> {
    pub uninterp spec fn k(&self) -> K;
    pub uninterp spec fn val(&self) -> N;
//@if dg,sdg
    pub uninterp spec fn outs(&self) -> Seq<Edge<K, N, E>>;
    pub uninterp spec fn ins(&self) -> Seq<Edge<K, N, E>>;
//@else
    pub uninterp spec fn adjs(&self) -> Seq<Edge<K, N, E>>;
//@endif
    #[verifier::external_body]
    pub fn key(&self) -> (r: &K)
        ensures *r == self.k()
    { unimplemented!() }
    #[verifier::external_body]
    pub fn value(&self) -> (r: &N)
        ensures *r == self.val()
    { unimplemented!() }
//@if dg,sdg
    #[verifier::external_body]
    pub fn iter_out(&self) -> (r: NodeIter<'_, K, N, E>)
        ensures r.rem() == self.outs(),
    { unimplemented!() }
    #[verifier::external_body]
    pub fn iter_in(&self) -> (r: NodeIter<'_, K, N, E>)
        ensures r.rem() == self.ins(),
    { unimplemented!() }
//@else
    #[verifier::external_body]
    pub fn iter(&self) -> (r: NodeIter<'_, K, N, E>)
        ensures r.rem() == self.adjs(),
    { unimplemented!() }
//@endif
}
impl<K, N, E> Node<K, N, E> {
    // R16: Rc::ptr_eq / Arc::ptr_eq on two handles: the same allocation has the same key (not conversely)
    #[verifier::external_body]
    pub fn same_cell(&self, other: &Self) -> (r: bool)
        ensures r ==> self.k() == other.k()
    { unimplemented!() }
}
impl<K, N, E> Clone for Node<K, N, E> {
    #[verifier::external_body]
    fn clone(&self) -> (r: Self)
        ensures r == *self
    { unimplemented!() }
}
// #[derive(Clone)] on Edge: clones each field
impl<K, N, E: Clone> Clone for Edge<K, N, E> {
    #[verifier::external_body]
    fn clone(&self) -> (r: Self)
        ensures r.0 == self.0, r.1 == self.1, cloned(self.2, r.2)
    { unimplemented!() }
}

// one shim for IterOut / IterIn / NodeIterator
#[verifier::external_body]
#[verifier::accept_recursive_types(K)]
#[verifier::accept_recursive_types(N)]
#[verifier::accept_recursive_types(E)]
pub struct NodeIter<'a, K, N, E> { _p: core::marker::PhantomData<&'a (K, N, E)> }

impl<'a, K, N, E> Iterator for NodeIter<'a, K, N, E> {
    type Item = Edge<K, N, E>;
    #[verifier::external_body]
    fn next(&mut self) -> (r: Option<Edge<K, N, E>>)
    { unimplemented!() }
}
impl<'a, K, N, E> NodeIter<'a, K, N, E> {
    pub uninterp spec fn rem(&self) -> Seq<Edge<K, N, E>>;
}
impl<'a, K, N, E> vstd::std_specs::iter::IteratorSpecImpl for NodeIter<'a, K, N, E> {
    open spec fn obeys_prophetic_iter_laws(&self) -> bool { true }
    open spec fn remaining(&self) -> Seq<Edge<K, N, E>> { self.rem() }
    open spec fn will_return_none(&self) -> bool { true }
    open spec fn decrease(&self) -> Option<nat> { Some(self.rem().len()) }
    open spec fn peek(&self, i: int) -> Option<Edge<K, N, E>> { if 0 <= i < self.rem().len() { Some(self.rem()[i]) } else { None } }
}

// Method (method.rs) holds `&mut dyn FnMut`, which Verus does not accept. TRUSTED shim for
// Method::exec (its three-line body is hash-pinned): Filter returns the closure's answer,
// ForEach calls it once and returns true, Empty returns true. `accepts` is the pure filter
// predicate of C04-C10; `log` records every edge handed to the closure (C07).
#[verifier::external_body]
#[verifier::accept_recursive_types(K)]
#[verifier::accept_recursive_types(N)]
#[verifier::accept_recursive_types(E)]
pub struct Method<'a, K, N, E> { _p: core::marker::PhantomData<&'a (K, N, E)> }
impl<'a, K, N, E> Method<'a, K, N, E> {
    pub uninterp spec fn accepts(&self, e: Edge<K, N, E>) -> bool;
    pub uninterp spec fn log(&self) -> Seq<Edge<K, N, E>>;
    #[verifier::external_body]
    pub fn exec(&mut self, e: &Edge<K, N, E>) -> (r: bool)
        ensures r == old(self).accepts(*e),
            forall|x: Edge<K, N, E>| final(self).accepts(x) == old(self).accepts(x),
            final(self).log() == old(self).log().push(*e),
    { unimplemented!() }
}

// the filter predicate of a Method as a spec function
pub open spec fn acc_of<'a, K, N, E>(m: Method<'a, K, N, E>) -> spec_fn(Edge<K, N, E>) -> bool { |e: Edge<K, N, E>| m.accepts(e) }

pub enum Transposition { Outbound, Inbound }

pub assume_specification<T>[ <[T]>::reverse ](s: &mut [T])
    ensures final(s)@ == old(s)@.reverse();

// the set of live nodes of the frozen graph
pub uninterp spec fn universe<K, N, E>() -> Set<Node<K, N, E>>;

// R13: `Method::Empty` is written `Method::empty()` (the shim is an opaque struct, not an enum)
impl<'a, K, N, E> Method<'a, K, N, E> {
    #[verifier::external_body]
    pub fn empty() -> (r: Self)
        ensures forall|e: Edge<K, N, E>| r.accepts(e), r.log() == Seq::<Edge<K, N, E>>::empty()
    { unimplemented!() }
}

// R12: `edges.iter().map(|Edge(_, v, _)| v.clone()).collect()` (iterator adapter chain, not
// accepted by Verus) is replaced by this specified stand-in
#[verifier::external_body]
pub fn targets_of<K, N, E>(edges: &Vec<Edge<K, N, E>>) -> (r: Vec<Node<K, N, E>>)
    ensures r@ == edges@.map_values(|e: Edge<K, N, E>| e.1)
{ unimplemented!() }

//@if ug,sug
impl<K, N, E> Node<K, N, E> {
    // number of leading entries of adjs() that this node created itself
    pub uninterp spec fn n_created(&self) -> nat;
    #[verifier::external_body]
    pub fn created_degree(&self) -> (r: usize)
        ensures r == self.n_created()
    { unimplemented!() }
}
//@endif

// further read-only node API, so that code calling it stays inside the verified dialect
// (specified from the heap-world contracts of the same functions)
pub open spec fn first_to<K, N, E>(s: Seq<Edge<K, N, E>>, k: K, by_source: bool) -> int
    decreases s.len()
{
    if s.len() == 0 { -1 } else if (if by_source { s[0].0.k() } else { s[0].1.k() }) == k { 0 } else {
        let r = first_to(s.drop_first(), k, by_source); if r < 0 { -1 } else { r + 1 }
    }
}
impl<K, N, E> Node<K, N, E> {
//@if dg,sdg
    #[verifier::external_body]
    pub fn find_outbound(&self, other: &K) -> (r: Option<Node<K, N, E>>)
        ensures r.is_some() <==> first_to(self.outs(), *other, false) >= 0,
            r.is_some() ==> r.unwrap() == self.outs()[first_to(self.outs(), *other, false)].1,
    { unimplemented!() }
    #[verifier::external_body]
    pub fn find_inbound(&self, other: &K) -> (r: Option<Node<K, N, E>>)
        ensures r.is_some() <==> first_to(self.ins(), *other, true) >= 0,
            r.is_some() ==> r.unwrap() == self.ins()[first_to(self.ins(), *other, true)].0,
    { unimplemented!() }
    #[verifier::external_body]
    pub fn is_connected(&self, other: &K) -> (r: bool)
        ensures r == (first_to(self.outs(), *other, false) >= 0)
    { unimplemented!() }
    #[verifier::external_body]
    pub fn out_degree(&self) -> (r: usize) ensures r == self.outs().len() { unimplemented!() }
    #[verifier::external_body]
    pub fn in_degree(&self) -> (r: usize) ensures r == self.ins().len() { unimplemented!() }
    #[verifier::external_body]
    pub fn is_root(&self) -> (r: bool) ensures r == (self.ins().len() == 0) { unimplemented!() }
    #[verifier::external_body]
    pub fn is_leaf(&self) -> (r: bool) ensures r == (self.outs().len() == 0) { unimplemented!() }
    #[verifier::external_body]
    pub fn is_orphan(&self) -> (r: bool) ensures r == (self.ins().len() == 0 && self.outs().len() == 0) { unimplemented!() }
//@else
    #[verifier::external_body]
    pub fn find_adjacent(&self, other: &K) -> (r: Option<Node<K, N, E>>)
        ensures r.is_some() <==> first_to(self.adjs(), *other, false) >= 0,
            r.is_some() ==> r.unwrap().k() == *other,
    { unimplemented!() }
    #[verifier::external_body]
    pub fn is_connected(&self, other: &K) -> (r: bool)
        ensures r == (first_to(self.adjs(), *other, false) >= 0)
    { unimplemented!() }
    #[verifier::external_body]
    pub fn degree(&self) -> (r: usize) ensures r == self.adjs().len() { unimplemented!() }
    #[verifier::external_body]
    pub fn is_orphan(&self) -> (r: bool) ensures r == (self.adjs().len() == 0) { unimplemented!() }
//@endif
}
