// ===== lemmas_iter.rs : an edge loop ends once the list stops growing (C20, termination clause for edge loops) =====
// One call of next() as a function of the iterator position and the current length of the list (the
// iterator contracts below ensure exactly this step, whatever happened to the graph between two calls).
pub open spec fn iter_step(pos: nat, len: nat) -> (nat, bool) {
    if pos < len { ((pos + 1) as nat, true) } else { (pos, false) }
}
// position before the i-th call when lens[j] is the length of the list at the j-th call
pub open spec fn iter_run(p0: nat, lens: Seq<nat>, i: int) -> nat
    decreases i
{
    if i <= 0 { p0 } else { iter_step(iter_run(p0, lens, i - 1), lens[i - 1]).0 }
}
proof fn lemma_iter_progress(p0: nat, lens: Seq<nat>, n0: int, t: int)
    requires 0 <= n0, 0 <= t, n0 + t <= lens.len(),
        forall|j: int| n0 <= j < n0 + t ==> iter_step(iter_run(p0, lens, j), #[trigger] lens[j]).1,
    ensures iter_run(p0, lens, n0 + t) == iter_run(p0, lens, n0) + t
    decreases t
{
    if t > 0 {
        lemma_iter_progress(p0, lens, n0, t - 1);
        assert(iter_step(iter_run(p0, lens, n0 + t - 1), lens[n0 + t - 1]).1);
    }
}
// if from the n0-th call on the list never has more than `bound` entries, one of the next bound + 1 calls returns None
pub proof fn lemma_iter_terminates(p0: nat, lens: Seq<nat>, n0: int, bound: nat)
    requires 0 <= n0, n0 + bound + 1 <= lens.len(), forall|j: int| n0 <= j < lens.len() ==> #[trigger] lens[j] <= bound,
    ensures exists|j: int| n0 <= j <= n0 + bound && !iter_step(iter_run(p0, lens, j), #[trigger] lens[j]).1
{
    if forall|j: int| n0 <= j <= n0 + bound ==> iter_step(iter_run(p0, lens, j), #[trigger] lens[j]).1 {
        lemma_iter_progress(p0, lens, n0, bound as int + 1);
        lemma_iter_progress(p0, lens, n0, bound as int);
        let j = n0 + bound as int;
        assert(iter_run(p0, lens, j) >= bound);
        assert(iter_step(iter_run(p0, lens, j), lens[j]).1);
        assert(lens[j] <= bound);
        assert(false);
    }
}
