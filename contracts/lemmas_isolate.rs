// ===== lemmas_isolate.rs : counting argument for isolate (DESIGN §5 C01) =====

// s with its first n entries of key k removed
pub open spec fn drop_n<K, E>(s: Seq<(K, E)>, k: K, n: nat) -> Seq<(K, E)>
    decreases s.len()
{
    if n == 0 || s.len() == 0 { s }
    else if s[0].0 == k { drop_n(s.drop_first(), k, (n - 1) as nat) }
    else { seq![s[0]] + drop_n(s.drop_first(), k, n) }
}

pub proof fn lemma_drop_one<K, E>(s: Seq<(K, E)>, k: K)
    requires first_idx(s, k) >= 0
    ensures drop_n(s, k, 1) == s.remove(first_idx(s, k))
    decreases s.len()
{
    lemma_first_idx_props(s, k);
    let t = s.drop_first();
    if s[0].0 == k {
        assert(first_idx(s, k) == 0);
        assert(s.remove(0) =~= t);
        assert(drop_n(t, k, 0) == t);
        assert(drop_n(s, k, 1) == drop_n(t, k, 0));
    } else {
        assert(first_idx(t, k) >= 0);
        assert(first_idx(s, k) == first_idx(t, k) + 1);
        lemma_drop_one(t, k);
        lemma_first_idx_props(t, k);
        assert(seq![s[0]] + t.remove(first_idx(t, k)) =~= s.remove(first_idx(t, k) + 1));
        assert(drop_n(s, k, 1) == seq![s[0]] + drop_n(t, k, 1));
    }
}

pub proof fn lemma_first_idx_cons<K, E>(x: (K, E), d: Seq<(K, E)>, k: K)
    ensures first_idx(seq![x] + d, k) == if x.0 == k { 0 } else if first_idx(d, k) < 0 { -1 } else { first_idx(d, k) + 1 }
{
    let s = seq![x] + d;
    assert(s.drop_first() =~= d);
    assert(s[0] == x);
}

// removing the next entry of key k from drop_n(s,k,n) gives drop_n(s,k,n+1)
pub proof fn lemma_drop_n_step<K, E>(s: Seq<(K, E)>, k: K, n: nat)
    requires proj(s, k).len() > n
    ensures
        first_idx(drop_n(s, k, n), k) >= 0,
        drop_n(s, k, n).remove(first_idx(drop_n(s, k, n), k)) == drop_n(s, k, n + 1),
    decreases s.len()
{
    if s.len() == 0 {
    } else if n == 0 {
        lemma_proj_first(s, k);
        lemma_drop_one(s, k);
    } else {
        let t = s.drop_first();
        if s[0].0 == k {
            assert(proj(s, k) == seq![s[0].1] + proj(t, k));
            lemma_drop_n_step(t, k, (n - 1) as nat);
        } else {
            lemma_drop_n_step(t, k, n);
            let d = drop_n(t, k, n);
            lemma_first_idx_cons(s[0], d, k);
            lemma_first_idx_props(d, k);
            let fi = first_idx(d, k);
            assert((seq![s[0]] + d).remove(fi + 1) =~= seq![s[0]] + d.remove(fi));
        }
    }
}

pub proof fn lemma_drop_n_all<K, E>(s: Seq<(K, E)>, k: K, n: nat)
    requires n >= proj(s, k).len()
    ensures drop_n(s, k, n) == without(s, k)
    decreases s.len()
{
    if s.len() == 0 {
    } else if n == 0 {
        // no entry of key k at all
        lemma_proj_none(s, k);
        lemma_without_none(s, k);
    } else {
        let t = s.drop_first();
        if s[0].0 == k {
            assert(proj(s, k) == seq![s[0].1] + proj(t, k));
            lemma_drop_n_all(t, k, (n - 1) as nat);
        } else {
            lemma_drop_n_all(t, k, n);
        }
    }
}

pub proof fn lemma_without_none<K, E>(s: Seq<(K, E)>, k: K)
    requires forall|j: int| 0 <= j < s.len() ==> (#[trigger] s[j]).0 != k
    ensures without(s, k) == s
    decreases s.len()
{
    if s.len() > 0 {
        let t = s.drop_first();
        assert forall|j: int| 0 <= j < t.len() implies (#[trigger] t[j]).0 != k by { assert(t[j] == s[j + 1]); }
        lemma_without_none(t, k);
        assert(seq![s[0]] + t =~= s);
    }
}

// prefix counts
pub proof fn lemma_proj_take_step<K, E>(s: Seq<(K, E)>, p: int, k: K)
    requires 0 <= p < s.len()
    ensures proj(s.take(p + 1), k) == if s[p].0 == k { proj(s.take(p), k).push(s[p].1) } else { proj(s.take(p), k) }
{
    assert(s.take(p + 1) =~= s.take(p).push(s[p]));
    lemma_proj_push(s.take(p), s[p], k);
}

pub proof fn lemma_proj_take_le<K, E>(s: Seq<(K, E)>, p: int, k: K)
    requires 0 <= p <= s.len()
    ensures proj(s.take(p), k).len() <= proj(s, k).len()
{
    assert(s.take(p) + s.skip(p) =~= s);
    lemma_proj_concat(s.take(p), s.skip(p), k);
}

pub proof fn lemma_proj_take_none<K, E>(s: Seq<(K, E)>, p: int, k: K)
    requires 0 <= p <= s.len(), forall|j: int| 0 <= j < s.len() ==> (#[trigger] s[j]).0 != k
    ensures proj(s.take(p), k).len() == 0
{
    lemma_proj_take_le(s, p, k);
    lemma_proj_none(s, k);
}
