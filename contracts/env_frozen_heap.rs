// ===== env_frozen_heap.rs : TRUSTED std specs for the priority queue (DESIGN §8.5) =====
#[verifier::external_type_specification]
#[verifier::external_body]
#[verifier::accept_recursive_types(T)]
#[verifier::reject_recursive_types(A)]
pub struct ExBinaryHeap<T, A: Allocator>(BinaryHeap<T, A>);

// the elements currently in the heap
pub uninterp spec fn hview<T, A: Allocator>(h: &BinaryHeap<T, A>) -> Multiset<T>;

pub assume_specification<T>[ BinaryHeap::<T>::new ]() -> (r: BinaryHeap<T>)
    ensures hview(&r) == Multiset::<T>::empty();
pub assume_specification<T: Ord, A: Allocator>[ BinaryHeap::<T, A>::push ](h: &mut BinaryHeap<T, A>, x: T)
    ensures hview(final(h)) == hview(old(h)).insert(x);
// pop returns a greatest element (std: max-heap by Ord)
pub assume_specification<T: Ord, A: Allocator>[ BinaryHeap::<T, A>::pop ](h: &mut BinaryHeap<T, A>) -> (r: Option<T>)
    ensures
        r.is_none() ==> hview(old(h)).len() == 0 && hview(final(h)) == hview(old(h)),
        r.is_some() ==> hview(old(h)).count(r.unwrap()) > 0 && hview(final(h)) == hview(old(h)).remove(r.unwrap())
            && (T::obeys_cmp_spec() ==> forall|y: T| hview(old(h)).count(y) > 0 ==> (#[trigger] y.cmp_spec(&r.unwrap())) != Ordering::Greater);
// peek returns a reference to a greatest element and leaves the heap unchanged (std states peek without an
// Ord bound, so the ordering fact is a separate axiom over the uninterpreted is_top)
pub uninterp spec fn is_top<T, A: Allocator>(h: &BinaryHeap<T, A>, x: T) -> bool;
pub assume_specification<'a, T, A: Allocator>[ BinaryHeap::<T, A>::peek ](h: &'a BinaryHeap<T, A>) -> (r: Option<&'a T>)
    ensures
        r.is_none() ==> hview(h).len() == 0,
        r.is_some() ==> hview(h).count(*r.unwrap()) > 0 && is_top(h, *r.unwrap());
#[verifier::external_body]
pub proof fn axiom_heap_top<T: Ord, A: Allocator>(h: &BinaryHeap<T, A>, x: T)
    requires is_top(h, x), T::obeys_cmp_spec()
    ensures forall|y: T| hview(h).count(y) > 0 ==> (#[trigger] y.cmp_spec(&x)) != Ordering::Greater
{}

// std::cmp::Reverse re-declared with its std definition (Verus cannot give a foreign type an
// ordering spec); the comparison impls below are verified, not assumed
pub struct Reverse<T>(pub T);
impl<T: PartialEq> PartialEq for Reverse<T> {
    fn eq(&self, other: &Self) -> (r: bool) { other.0 == self.0 }
}
impl<T: Eq> Eq for Reverse<T> {}
impl<T: Clone> Clone for Reverse<T> {
    fn clone(&self) -> (r: Self) ensures cloned(self.0, r.0) { Reverse(self.0.clone()) }
}
impl<T: PartialOrd> PartialOrd for Reverse<T> {
    fn partial_cmp(&self, other: &Self) -> (r: Option<Ordering>) { other.0.partial_cmp(&self.0) }
}
impl<T: Ord> Ord for Reverse<T> {
    fn cmp(&self, other: &Self) -> (r: Ordering) { other.0.cmp(&self.0) }
}
impl<T: PartialEq> vstd::std_specs::cmp::PartialEqSpecImpl for Reverse<T> {
    open spec fn obeys_eq_spec() -> bool { T::obeys_eq_spec() }
    open spec fn eq_spec(&self, other: &Self) -> bool { other.0.eq_spec(&self.0) }
}
impl<T: PartialOrd> vstd::std_specs::cmp::PartialOrdSpecImpl for Reverse<T> {
    open spec fn obeys_partial_cmp_spec() -> bool { T::obeys_partial_cmp_spec() }
    open spec fn partial_cmp_spec(&self, other: &Self) -> Option<Ordering> { other.0.partial_cmp_spec(&self.0) }
}
impl<T: Ord> vstd::std_specs::cmp::OrdSpecImpl for Reverse<T> {
    open spec fn obeys_cmp_spec() -> bool { T::obeys_cmp_spec() }
    open spec fn cmp_spec(&self, other: &Self) -> Ordering { other.0.cmp_spec(&self.0) }
}
