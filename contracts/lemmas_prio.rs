// ===== lemmas_prio.rs : a priority-first run as a trace of expansions (C06) =====
// The run is described by the sequence `done` of expanded nodes; for the i-th expansion pends[i] is
// the content of the priority queue when it starts (before the node is taken out) and rls[i] the number
// of discovery edges recorded by then.  prio_at ties both to what is observable: pends[i] is exactly
// "initially pending + discovered so far - expanded so far", the discovery edges recorded before the
// i-th expansion were found by earlier expansions and the later ones by this or later expansions, the
// expanded node was pending, and no pending node strictly precedes it (`bad`).
pub open spec fn lawful_ord<N: Ord>() -> bool {
    N::obeys_cmp_spec() && forall|a: N, b: N| ((#[trigger] a.cmp_spec(&b)) == Ordering::Less) == (b.cmp_spec(&a) == Ordering::Greater)
}
pub open spec fn bad_min<K, N: Ord, E>() -> spec_fn(Node<K, N, E>, Node<K, N, E>) -> bool {
    |y: Node<K, N, E>, x: Node<K, N, E>| y.val().cmp_spec(&x.val()) == Ordering::Less
}
pub open spec fn bad_max<K, N: Ord, E>() -> spec_fn(Node<K, N, E>, Node<K, N, E>) -> bool {
    |y: Node<K, N, E>, x: Node<K, N, E>| y.val().cmp_spec(&x.val()) == Ordering::Greater
}
pub open spec fn wrap_min<K, N, E>() -> spec_fn(Node<K, N, E>) -> Reverse<Node<K, N, E>> { |n: Node<K, N, E>| Reverse(n) }
pub open spec fn wrap_max<K, N, E>() -> spec_fn(Node<K, N, E>) -> Node<K, N, E> { |n: Node<K, N, E>| n }
pub open spec fn flat_adj<K, N, E>(ns: Seq<Node<K, N, E>>, adj: spec_fn(Node<K, N, E>) -> Seq<Edge<K, N, E>>) -> Seq<Edge<K, N, E>>
    decreases ns.len()
{
    if ns.len() == 0 { Seq::empty() } else { flat_adj(ns.drop_last(), adj) + adj(ns.last()) }
}
pub open spec fn srcs_in<K, N, E>(r: Seq<Edge<K, N, E>>, a: int, b: int, done: Seq<Node<K, N, E>>, lo: int, hi: int) -> bool {
    forall|j: int| a <= j < b && 0 <= j < r.len() ==> src_in((#[trigger] r[j]).0, done, lo, hi)
}
pub open spec fn src_in<K, N, E>(x: Node<K, N, E>, done: Seq<Node<K, N, E>>, lo: int, hi: int) -> bool {
    exists|k: int| lo <= k < hi && 0 <= k < done.len() && #[trigger] done[k] == x
}
pub open spec fn prio_at<K, N, E, T>(i: int, done: Seq<Node<K, N, E>>, pends: Seq<Multiset<T>>, rls: Seq<int>, h0: Multiset<T>, wrapf: spec_fn(Node<K, N, E>) -> T,
    r: Seq<Edge<K, N, E>>, from: int, bad: spec_fn(Node<K, N, E>, Node<K, N, E>) -> bool) -> bool
{
    &&& from <= rls[i] <= r.len()
    &&& heap_done(done.take(i), h0, pends[i], wrapf, tgts(r.subrange(from, rls[i])))
    &&& srcs_in(r, from, rls[i], done, 0, i)
    &&& srcs_in(r, rls[i], r.len() as int, done, i, done.len() as int)
    &&& pends[i].count(wrapf(done[i])) > 0
    &&& forall|y: Node<K, N, E>| (#[trigger] pends[i].count(wrapf(y))) > 0 ==> !bad(y, done[i])
}
pub open spec fn prio_trace<K, N, E, T>(done: Seq<Node<K, N, E>>, pends: Seq<Multiset<T>>, rls: Seq<int>, h0: Multiset<T>, wrapf: spec_fn(Node<K, N, E>) -> T,
    r: Seq<Edge<K, N, E>>, from: int, bad: spec_fn(Node<K, N, E>, Node<K, N, E>) -> bool) -> bool
{
    &&& pends.len() == done.len() && rls.len() == done.len() && 0 <= from <= r.len()
    &&& forall|i: int| 0 <= i < done.len() ==> #[trigger] prio_at(i, done, pends, rls, h0, wrapf, r, from, bad)
}
// the closure log of the run: the expanded nodes' edge lists one after the other, the last one cut
// short (after j edges) when the run stopped at the target
pub open spec fn log_of<K, N, E>(lg0: Seq<Edge<K, N, E>>, lg1: Seq<Edge<K, N, E>>, done: Seq<Node<K, N, E>>, j: int, adj: spec_fn(Node<K, N, E>) -> Seq<Edge<K, N, E>>, found: bool) -> bool {
    if found { done.len() > 0 && 0 <= j <= adj(done.last()).len() && lg1 == lg0 + flat_adj(done.drop_last(), adj) + adj(done.last()).take(j) }
    else { lg1 == lg0 + flat_adj(done, adj) }
}
// C06, first sentence, for a whole run that starts with the root alone in the queue
pub open spec fn prio_run<K, N, E, T>(lg0: Seq<Edge<K, N, E>>, lg1: Seq<Edge<K, N, E>>, root: Node<K, N, E>, wrapf: spec_fn(Node<K, N, E>) -> T,
    bad: spec_fn(Node<K, N, E>, Node<K, N, E>) -> bool, acc: spec_fn(Edge<K, N, E>) -> bool, adj: spec_fn(Node<K, N, E>) -> Seq<Edge<K, N, E>>, found: bool) -> bool
{
    exists|done: Seq<Node<K, N, E>>, pends: Seq<Multiset<T>>, rls: Seq<int>, r: Seq<Edge<K, N, E>>, j: int|
        tree(r, root, acc, adj) && #[trigger] prio_trace(done, pends, rls, Multiset::<T>::empty().insert(wrapf(root)), wrapf, r, 0, bad) && #[trigger] log_of(lg0, lg1, done, j, adj, found)
}

pub proof fn lemma_flat_push<K, N, E>(ns: Seq<Node<K, N, E>>, n: Node<K, N, E>, adj: spec_fn(Node<K, N, E>) -> Seq<Edge<K, N, E>>)
    ensures flat_adj(ns.push(n), adj) == flat_adj(ns, adj) + adj(n)
{
    assert(ns.push(n).drop_last() =~= ns);
}

pub proof fn lemma_prio_edge<K, N, E, T>(done: Seq<Node<K, N, E>>, pends: Seq<Multiset<T>>, rls: Seq<int>, h0: Multiset<T>, wrapf: spec_fn(Node<K, N, E>) -> T,
    r: Seq<Edge<K, N, E>>, from: int, bad: spec_fn(Node<K, N, E>, Node<K, N, E>) -> bool, e: Edge<K, N, E>)
    requires prio_trace(done, pends, rls, h0, wrapf, r, from, bad), done.len() > 0, e.0 == done.last()
    ensures prio_trace(done, pends, rls, h0, wrapf, r.push(e), from, bad)
{
    let r2 = r.push(e);
    assert forall|i: int| 0 <= i < done.len() implies #[trigger] prio_at(i, done, pends, rls, h0, wrapf, r2, from, bad) by {
        assert(prio_at(i, done, pends, rls, h0, wrapf, r, from, bad));
        assert(r2.subrange(from, rls[i]) =~= r.subrange(from, rls[i]));
        assert forall|j: int| from <= j < rls[i] && 0 <= j < r2.len() implies src_in((#[trigger] r2[j]).0, done, 0, i) by {
            assert(r2[j] == r[j]);
        }
        assert forall|j: int| rls[i] <= j < r2.len() && 0 <= j < r2.len() implies src_in((#[trigger] r2[j]).0, done, i, done.len() as int) by {
            if j < r.len() { assert(r2[j] == r[j]); } else { assert(done[done.len() - 1] == r2[j].0); }
        }
    }
}

pub proof fn lemma_prio_pop<K, N, E, T>(done: Seq<Node<K, N, E>>, pends: Seq<Multiset<T>>, rls: Seq<int>, h0: Multiset<T>, wrapf: spec_fn(Node<K, N, E>) -> T,
    r: Seq<Edge<K, N, E>>, from: int, bad: spec_fn(Node<K, N, E>, Node<K, N, E>) -> bool, node: Node<K, N, E>, hg: Multiset<T>)
    requires prio_trace(done, pends, rls, h0, wrapf, r, from, bad),
        heap_done(done, h0, hg, wrapf, tgts(r.skip(from))),
        srcs_in(r, from, r.len() as int, done, 0, done.len() as int),
        hg.count(wrapf(node)) > 0,
        forall|y: Node<K, N, E>| (#[trigger] hg.count(wrapf(y))) > 0 ==> !bad(y, node),
    ensures prio_trace(done.push(node), pends.push(hg), rls.push(r.len() as int), h0, wrapf, r, from, bad),
        srcs_in(r, from, r.len() as int, done.push(node), 0, done.len() as int + 1),
{
    let d2 = done.push(node);
    let p2 = pends.push(hg);
    let l2 = rls.push(r.len() as int);
    assert forall|i: int| 0 <= i < d2.len() implies #[trigger] prio_at(i, d2, p2, l2, h0, wrapf, r, from, bad) by {
        if i < done.len() {
            assert(prio_at(i, done, pends, rls, h0, wrapf, r, from, bad));
            assert(d2.take(i) =~= done.take(i));
            assert forall|j: int| from <= j < l2[i] && 0 <= j < r.len() implies src_in((#[trigger] r[j]).0, d2, 0, i) by {
                let k = choose|k: int| 0 <= k < i && 0 <= k < done.len() && #[trigger] done[k] == r[j].0;
                assert(d2[k] == done[k]);
            }
            assert forall|j: int| l2[i] <= j < r.len() && 0 <= j < r.len() implies src_in((#[trigger] r[j]).0, d2, i, d2.len() as int) by {
                let k = choose|k: int| i <= k < done.len() && 0 <= k < done.len() && #[trigger] done[k] == r[j].0;
                assert(d2[k] == done[k]);
            }
        } else {
            assert(d2.take(i) =~= done);
            assert(r.subrange(from, r.len() as int) =~= r.skip(from));
            assert forall|j: int| from <= j < l2[i] && 0 <= j < r.len() implies src_in((#[trigger] r[j]).0, d2, 0, i) by {
                let k = choose|k: int| 0 <= k < done.len() && 0 <= k < done.len() && #[trigger] done[k] == r[j].0;
                assert(d2[k] == done[k]);
            }
        }
    }
    assert forall|j: int| from <= j < r.len() && 0 <= j < r.len() implies src_in((#[trigger] r[j]).0, d2, 0, done.len() as int + 1) by {
        let k = choose|k: int| 0 <= k < done.len() && 0 <= k < done.len() && #[trigger] done[k] == r[j].0;
        assert(d2[k] == done[k]);
    }
}

pub proof fn lemma_srcs_push<K, N, E>(r: Seq<Edge<K, N, E>>, from: int, done: Seq<Node<K, N, E>>, e: Edge<K, N, E>)
    requires srcs_in(r, from, r.len() as int, done, 0, done.len() as int), done.len() > 0, e.0 == done.last()
    ensures srcs_in(r.push(e), from, r.len() as int + 1, done, 0, done.len() as int)
{
    let r2 = r.push(e);
    assert forall|j: int| from <= j < r.len() + 1 && 0 <= j < r2.len() implies src_in((#[trigger] r2[j]).0, done, 0, done.len() as int) by {
        if j < r.len() { assert(r2[j] == r[j]); } else { assert(done[done.len() - 1] == r2[j].0); }
    }
}
