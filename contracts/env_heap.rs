// ===== env_heap.rs : TRUSTED environment of the heap world (DESIGN §3.3, §8.1) =====
// Node / WeakNode are opaque handles identified by their key; the adjacency that the
// real code keeps behind `inner.2` (RefCell / RwLock) lives in an explicit Heap.

#[derive(Debug)]
pub enum Error { EdgeNotFound, EdgeAlreadyExists }

#[verifier::external_body]
pub fn unreachable_panic() -> !
    requires false
{ panic!() }

// R4b: an adjacency guard of node `a` is requested while a conflicting guard of node `b`
// is live: RefCell panics / RwLock self-deadlocks unless the nodes differ
pub proof fn guard_distinct<K>(a: K, b: K)
    requires a != b
{}

// R4b: a call to a node-level function while an adjacency guard is live
pub proof fn call_under_guard()
    requires false
{}

pub open spec fn lawful_clone<T: Clone>() -> bool {
    forall|a: T, b: T| #[trigger] call_ensures(T::clone, (&a,), b) ==> a == b
}
pub open spec fn lawful_key<K: PartialEq>() -> bool {
    K::obeys_eq_spec() && forall|x: K, y: K| #[trigger] x.eq_spec(&y) == (x == y)
}

#[verifier::external_body]
#[verifier::accept_recursive_types(K)]
#[verifier::accept_recursive_types(N)]
#[verifier::accept_recursive_types(E)]
pub struct WeakNode<K, N, E> { _p: core::marker::PhantomData<(K, N, E)> }

#[verifier::external_body]
#[verifier::accept_recursive_types(K)]
#[verifier::accept_recursive_types(N)]
#[verifier::accept_recursive_types(E)]
pub struct Node<K, N, E> { _p: core::marker::PhantomData<(K, N, E)> }

impl<K, N, E> WeakNode<K, N, E> {
    pub uninterp spec fn k(&self) -> K;
    // liveness of peers (DESIGN §8.1): upgrade succeeds
    #[verifier::external_body]
    pub fn upgrade(&self) -> (r: Option<Node<K, N, E>>)
        ensures r.is_some(), r.unwrap().k() == self.k()
    { unimplemented!() }
    #[verifier::external_body]
    pub fn downgrade(node: &Node<K, N, E>) -> (r: Self)
        ensures r.k() == node.k()
    { unimplemented!() }
}
impl<K, N, E> Node<K, N, E> {
    pub uninterp spec fn k(&self) -> K;
    pub uninterp spec fn val(&self) -> N;
    #[verifier::external_body]
    pub fn key(&self) -> (r: &K)
        ensures *r == self.k()
    { unimplemented!() }
    #[verifier::external_body]
    pub fn value(&self) -> (r: &N)
        ensures *r == self.val()
    { unimplemented!() }
}
impl<K, N, E> Node<K, N, E> {
    // R16: Rc::ptr_eq / Arc::ptr_eq on two handles: the same allocation has the same key (not conversely)
    #[verifier::external_body]
    pub fn same_cell(&self, other: &Self) -> (r: bool)
        ensures r ==> self.k() == other.k()
    { unimplemented!() }
}
impl<K, N, E> Clone for Node<K, N, E> {
    #[verifier::external_body]
    fn clone(&self) -> (r: Self)
        ensures r == *self
    { unimplemented!() }
}

pub type InnerEdge<K, N, E> = (WeakNode<K, N, E>, E);
pub type RefInnerEdge<'a, K, N, E> = (&'a WeakNode<K, N, E>, &'a E);

pub open spec fn ev<K, N, E>(s: Seq<(WeakNode<K, N, E>, E)>) -> Seq<(K, E)> {
    s.map_values(|e: (WeakNode<K, N, E>, E)| (e.0.k(), e.1))
}

// TRUSTED (DESIGN §8.7): a Vec of non-zero-sized elements never holds more than isize::MAX
// elements (allocation limit of the Rust standard library). Adjacency entries contain a Weak
// pointer, so they are never zero-sized.
#[verifier::external_body]
pub proof fn axiom_vec_len_isize<K, N, E>(v: &Vec<(WeakNode<K, N, E>, E)>)
    ensures v@.len() <= isize::MAX
{}

// error payloads built with format! (R7b)
#[verifier::external_body]
#[derive(Debug)]
pub struct ErrMsg { _p: core::marker::PhantomData<u8> }
#[verifier::external_body]
pub fn err_msg() -> (e: ErrMsg) { unimplemented!() }

impl<K, N, E> Node<K, N, E> {
    // A node object whose adjacency cell is not modelled: `Node::new` with a key that already
    // denotes a cell of this heap (deserialising a document with a repeated key) yields such a
    // node. Contracts that touch adjacency require !detached().
    pub uninterp spec fn detached(&self) -> bool;
}

// serde's SeqAccess (a generic trait object of the deserializer): the i-th `next_element::<T>()`
// yields what the document holds at position i when read as a T -- an error (ill-typed or truncated
// input), None (sequence exhausted) or Some(value). TRUSTED shim; the reads themselves are serde's.
#[verifier::external_body]
pub struct DocId { _p: core::marker::PhantomData<u8> }
pub uninterp spec fn elem_of<T>(d: DocId, i: nat) -> Result<Option<T>, ()>;

#[verifier::external_body]
pub struct SeqDoc { _p: core::marker::PhantomData<u8> }
impl SeqDoc {
    pub uninterp spec fn doc(&self) -> DocId;
    pub uninterp spec fn pos(&self) -> nat;
    #[verifier::external_body]
    pub fn next_element<T>(&mut self) -> (r: Result<Option<T>, ErrMsg>)
        ensures final(self).doc() == old(self).doc(), final(self).pos() == old(self).pos() + 1,
            elem_of::<T>(old(self).doc(), old(self).pos()).is_err() <==> r.is_err(),
            r.is_ok() ==> Ok::<Option<T>, ()>(r.unwrap()) == elem_of::<T>(old(self).doc(), old(self).pos()),
    { unimplemented!() }
}

// TRUSTED std spec (vstd has none): `map[key]` on a HashMap returns the stored value and panics when the key is absent
#[verifier::external_body]
pub fn hm_index<'a, K: Eq + Hash, V>(m: &'a HashMap<K, V>, k: &K) -> (r: &'a V)
    requires vstd::std_specs::hash::obeys_key_model::<K>(), m@.contains_key(*k)
    ensures *r == m@[*k]
{ &m[k] }
