// ===== lemmas_scc.rs : the depth-first finishing order carries the component structure (C11) =====
// For the nodes recorded by one postorder call (and the expanded node `top` itself, which the caller
// records next, at the virtual position r.len()): if u reaches v but v does not reach u, then some node
// mutually reachable with u is recorded after v.  This is the fact Kosaraju's second pass needs.
pub open spec fn sn<K, N, E>(r: Seq<Edge<K, N, E>>, top: Node<K, N, E>, p: int) -> Node<K, N, E> {
    if 0 <= p < r.len() { r[p].1 } else { top }
}
pub open spec fn mutual<K, N, E>(a: Node<K, N, E>, b: Node<K, N, E>, acc: spec_fn(Edge<K, N, E>) -> bool, adj: spec_fn(Node<K, N, E>) -> Seq<Edge<K, N, E>>) -> bool {
    reach0(a, b.k(), acc, adj) && reach0(b, a.k(), acc, adj)
}
pub open spec fn scc_pair_ok<K, N, E>(r: Seq<Edge<K, N, E>>, top: Node<K, N, E>, i: int, j: int, acc: spec_fn(Edge<K, N, E>) -> bool, adj: spec_fn(Node<K, N, E>) -> Seq<Edge<K, N, E>>) -> bool {
    reach0(sn(r, top, i), sn(r, top, j).k(), acc, adj) && !reach0(sn(r, top, j), sn(r, top, i).k(), acc, adj)
        ==> exists|k: int| j < k <= r.len() && #[trigger] mutual(sn(r, top, i), sn(r, top, k), acc, adj)
}
#[verifier::opaque]
pub open spec fn scc_seg_ok<K, N, E>(r: Seq<Edge<K, N, E>>, from: int, top: Node<K, N, E>, acc: spec_fn(Edge<K, N, E>) -> bool, adj: spec_fn(Node<K, N, E>) -> Seq<Edge<K, N, E>>) -> bool {
    forall|i: int, j: int| from <= i <= r.len() && from <= j <= r.len() ==> #[trigger] scc_pair_ok(r, top, i, j, acc, adj)
}
// the expanded node reaches everything its call records
#[verifier::opaque]
pub open spec fn seg_reach<K, N, E>(r: Seq<Edge<K, N, E>>, from: int, top: Node<K, N, E>, acc: spec_fn(Edge<K, N, E>) -> bool, adj: spec_fn(Node<K, N, E>) -> Seq<Edge<K, N, E>>) -> bool {
    forall|p: int| from <= p < r.len() ==> universe::<K, N, E>().contains((#[trigger] r[p]).1) && reach0(top, r[p].1.k(), acc, adj)
}
// every visited node has all its accepted successors visited, or reaches the node being expanded
// (it is that node or one of its ancestors on the recursion stack)
#[verifier::opaque]
pub open spec fn cp_ok<K, N, E>(vis: Set<K>, top: Node<K, N, E>, acc: spec_fn(Edge<K, N, E>) -> bool, adj: spec_fn(Node<K, N, E>) -> Seq<Edge<K, N, E>>) -> bool {
    forall|n: Node<K, N, E>| #[trigger] universe::<K, N, E>().contains(n) && vis.contains(n.k()) ==> closed_at(n, vis, acc, adj) || reach0(n, top.k(), acc, adj)
}

pub proof fn lemma_reach_path<K, N, E>(a: Node<K, N, E>, b: Node<K, N, E>, acc: spec_fn(Edge<K, N, E>) -> bool, adj: spec_fn(Node<K, N, E>) -> Seq<Edge<K, N, E>>, q: Seq<Edge<K, N, E>>, i: int)
    requires graph_ok(adj), universe::<K, N, E>().contains(a), universe::<K, N, E>().contains(b), reach0(a, b.k(), acc, adj), is_path(q, b, acc, adj), 0 <= i < q.len()
    ensures reach(a, q[i].1.k(), acc, adj)
    decreases i
{
    lemma_path_in_uni(b, acc, adj, q, i);
    if i > 0 {
        lemma_reach_path(a, b, acc, adj, q, i - 1);
        assert(q[i - 1].1 == q[i].0) by { reveal(is_path); }
    } else {
        assert(q[0].0 == b) by { reveal(is_path); }
    }
    assert(in_adj(q[i], adj) && acc(q[i])) by { reveal(is_path); }
    lemma_reach_step(a, acc, adj, q[i]);
}

pub proof fn lemma_reach0_trans<K, N, E>(a: Node<K, N, E>, b: Node<K, N, E>, k: K, acc: spec_fn(Edge<K, N, E>) -> bool, adj: spec_fn(Node<K, N, E>) -> Seq<Edge<K, N, E>>)
    requires graph_ok(adj), universe::<K, N, E>().contains(a), universe::<K, N, E>().contains(b), reach0(a, b.k(), acc, adj), reach0(b, k, acc, adj)
    ensures reach0(a, k, acc, adj)
{
    if k != b.k() {
        reveal(reach);
        let q = choose|q: Seq<Edge<K, N, E>>| is_path(q, b, acc, adj) && q.last().1.k() == k;
        assert(q.len() > 0) by { reveal(is_path); }
        lemma_reach_path(a, b, acc, adj, q, q.len() - 1);
    }
}

// an accepted edge followed by a (possibly empty) path
pub proof fn lemma_edge_reach<K, N, E>(e: Edge<K, N, E>, k: K, acc: spec_fn(Edge<K, N, E>) -> bool, adj: spec_fn(Node<K, N, E>) -> Seq<Edge<K, N, E>>)
    requires graph_ok(adj), universe::<K, N, E>().contains(e.0), universe::<K, N, E>().contains(e.1), in_adj(e, adj), acc(e), reach0(e.1, k, acc, adj)
    ensures reach(e.0, k, acc, adj)
{
    lemma_reach_step(e.0, acc, adj, e);
    if k != e.1.k() {
        reveal(reach);
        let q = choose|q: Seq<Edge<K, N, E>>| is_path(q, e.1, acc, adj) && q.last().1.k() == k;
        assert(q.len() > 0) by { reveal(is_path); }
        lemma_reach_path(e.0, e.1, acc, adj, q, q.len() - 1);
    }
}

// a path that starts at a visited node which does not reach `top` stays inside the visited set
pub proof fn lemma_cp_path<K, N, E>(vis: Set<K>, top: Node<K, N, E>, u: Node<K, N, E>, acc: spec_fn(Edge<K, N, E>) -> bool, adj: spec_fn(Node<K, N, E>) -> Seq<Edge<K, N, E>>, p: Seq<Edge<K, N, E>>, i: int)
    requires graph_ok(adj), universe::<K, N, E>().contains(u), universe::<K, N, E>().contains(top), cp_ok(vis, top, acc, adj),
        vis.contains(u.k()), !reach0(u, top.k(), acc, adj), is_path(p, u, acc, adj), 0 <= i < p.len()
    ensures vis.contains(p[i].1.k()), universe::<K, N, E>().contains(p[i].1), !reach0(p[i].1, top.k(), acc, adj)
    decreases i
{
    reveal(cp_ok);
    lemma_path_in_uni(u, acc, adj, p, i);
    let src = p[i].0;
    if i > 0 {
        lemma_cp_path(vis, top, u, acc, adj, p, i - 1);
        assert(p[i - 1].1 == p[i].0) by { reveal(is_path); }
    } else {
        assert(p[0].0 == u) by { reveal(is_path); }
    }
    assert(in_adj(p[i], adj) && acc(p[i])) by { reveal(is_path); }
    assert(closed_at(src, vis, acc, adj));
    let j = choose|j: int| 0 <= j < adj(src).len() && (#[trigger] adj(src)[j]) == p[i];
    assert(acc(adj(src)[j]));
    if reach0(p[i].1, top.k(), acc, adj) {
        lemma_edge_reach(p[i], top.k(), acc, adj);
    }
}

pub proof fn lemma_cp_call<K, N, E>(v0: Set<K>, x: Node<K, N, E>, e: Edge<K, N, E>, acc: spec_fn(Edge<K, N, E>) -> bool, adj: spec_fn(Node<K, N, E>) -> Seq<Edge<K, N, E>>)
    requires graph_ok(adj), cp_ok(v0, x, acc, adj), e.0 == x, universe::<K, N, E>().contains(x), universe::<K, N, E>().contains(e.1), in_adj(e, adj), acc(e)
    ensures cp_ok(v0.insert(e.1.k()), e.1, acc, adj)
{
    reveal(cp_ok);
    let v1 = v0.insert(e.1.k());
    assert forall|n: Node<K, N, E>| #[trigger] universe::<K, N, E>().contains(n) && v1.contains(n.k()) implies closed_at(n, v1, acc, adj) || reach0(n, e.1.k(), acc, adj) by {
        if n.k() != e.1.k() {
            if reach0(n, x.k(), acc, adj) { lemma_reach_step(n, acc, adj, e); }
            else { assert(closed_at(n, v0, acc, adj)); }
        }
    }
}

pub proof fn lemma_cp_back<K, N, E>(v0: Set<K>, v2: Set<K>, x: Node<K, N, E>, c: Node<K, N, E>, acc: spec_fn(Edge<K, N, E>) -> bool, adj: spec_fn(Node<K, N, E>) -> Seq<Edge<K, N, E>>)
    requires keys_distinct::<K, N, E>(), cp_ok(v0, x, acc, adj), universe::<K, N, E>().contains(c), closed_at(c, v2, acc, adj), new_closed(v0.insert(c.k()), v2, acc, adj),
        forall|k: K| v0.contains(k) ==> v2.contains(k),
    ensures cp_ok(v2, x, acc, adj)
{
    reveal(cp_ok);
    assert forall|n: Node<K, N, E>| #[trigger] universe::<K, N, E>().contains(n) && v2.contains(n.k()) implies closed_at(n, v2, acc, adj) || reach0(n, x.k(), acc, adj) by {
        if v0.contains(n.k()) {
            if !reach0(n, x.k(), acc, adj) { assert(closed_at(n, v0, acc, adj)); }
        } else if n.k() == c.k() { lemma_keys(n, c); }
        else { assert(v0.insert(c.k()).contains(n.k()) == false); }
    }
}

// the postorder step: the recursive call on c = e.1 returned (r0 -> r2) and the edge e is recorded
pub proof fn lemma_scc_step<K, N, E>(r0: Seq<Edge<K, N, E>>, r2: Seq<Edge<K, N, E>>, v0: Set<K>, e: Edge<K, N, E>, a: int, x: Node<K, N, E>, acc: spec_fn(Edge<K, N, E>) -> bool, adj: spec_fn(Node<K, N, E>) -> Seq<Edge<K, N, E>>)
    requires graph_ok(adj), universe::<K, N, E>().contains(x), universe::<K, N, E>().contains(e.1), e.0 == x, in_adj(e, adj), acc(e),
        0 <= a <= r0.len() <= r2.len(), r2.take(r0.len() as int) == r0,
        scc_seg_ok(r0, a, x, acc, adj), seg_reach(r0, a, x, acc, adj),
        scc_seg_ok(r2, r0.len() as int, e.1, acc, adj), seg_reach(r2, r0.len() as int, e.1, acc, adj),
        cp_ok(v0, x, acc, adj), vis_sup(v0, r0), !v0.contains(e.1.k()),
        forall|i: int| r0.len() <= i < r2.len() ==> !v0.contains((#[trigger] r2[i]).1.k()),
    ensures scc_seg_ok(r2.push(e), a, x, acc, adj), seg_reach(r2.push(e), a, x, acc, adj)
{
    reveal(scc_seg_ok);
    reveal(seg_reach);
    let r3 = r2.push(e);
    let c = e.1;
    let n0 = r0.len() as int;
    let n2 = r2.len() as int;
    let n3 = r3.len() as int;
    assert forall|p: int| 0 <= p < n0 implies r3[p] == r0[p] by { assert(r2.take(n0)[p] == r2[p]); }
    assert forall|p: int| n0 <= p < n2 implies r3[p] == r2[p] by {}
    assert(r3[n2] == e);
    lemma_reach_step(x, acc, adj, e);
    assert forall|p: int| a <= p < r3.len() implies universe::<K, N, E>().contains((#[trigger] r3[p]).1) && reach0(x, r3[p].1.k(), acc, adj) by {
        if p < n0 { assert(r3[p] == r0[p]); }
        else if p < n2 { assert(r3[p] == r2[p]); lemma_reach0_trans(x, c, r2[p].1.k(), acc, adj); }
        else { }
    }
    assert forall|i: int, j: int| a <= i <= r3.len() && a <= j <= r3.len() implies #[trigger] scc_pair_ok(r3, x, i, j, acc, adj) by {
        let u = sn(r3, x, i);
        let v = sn(r3, x, j);
        if reach0(u, v.k(), acc, adj) && !reach0(v, u.k(), acc, adj) {
            let iold = i < n0 || i == n3;
            let jold = j < n0 || j == n3;
            if iold && jold {
                let i0 = if i == n3 { n0 } else { i };
                let j0 = if j == n3 { n0 } else { j };
                assert(sn(r0, x, i0) == u);
                assert(sn(r0, x, j0) == v);
                assert(scc_pair_ok(r0, x, i0, j0, acc, adj));
                let k0 = choose|k: int| j0 < k <= r0.len() && #[trigger] mutual(sn(r0, x, i0), sn(r0, x, k), acc, adj);
                let k = if k0 == n0 { n3 } else { k0 };
                assert(sn(r3, x, k) == sn(r0, x, k0));
                assert(j < k <= r3.len() && mutual(sn(r3, x, i), sn(r3, x, k), acc, adj));
            } else if !iold && !jold {
                assert(sn(r2, c, i) == u);
                assert(sn(r2, c, j) == v);
                assert(scc_pair_ok(r2, c, i, j, acc, adj));
                let k = choose|k: int| j < k <= r2.len() && #[trigger] mutual(sn(r2, c, i), sn(r2, c, k), acc, adj);
                assert(sn(r3, x, k) == sn(r2, c, k));
                assert(j < k <= r3.len() && mutual(sn(r3, x, i), sn(r3, x, k), acc, adj));
            } else if !iold && jold {
                if j == n3 {
                    // v is x itself, which reaches everything recorded by its call
                    assert(reach0(x, r3[i].1.k(), acc, adj));
                    assert(false);
                } else {
                    assert(j < i <= r3.len() && mutual(sn(r3, x, i), sn(r3, x, i), acc, adj));
                }
            } else {
                if i == n3 {
                    assert(j < n3 <= r3.len() && mutual(sn(r3, x, i), sn(r3, x, n3), acc, adj));
                } else {
                    assert(u == r0[i].1);
                    assert(universe::<K, N, E>().contains(u) && reach0(x, u.k(), acc, adj));
                    if reach0(u, x.k(), acc, adj) {
                        assert(j < n3 <= r3.len() && mutual(sn(r3, x, i), sn(r3, x, n3), acc, adj));
                    } else {
                        // the path from u to v never leaves the set visited before the call on c
                        assert(v0.contains(u.k()));
                        assert(!v0.contains(v.k())) by { if j < n2 { assert(r3[j] == r2[j]); } }
                        reveal(reach);
                        let p = choose|p: Seq<Edge<K, N, E>>| is_path(p, u, acc, adj) && p.last().1.k() == v.k();
                        assert(p.len() > 0) by { reveal(is_path); }
                        lemma_cp_path(v0, x, u, acc, adj, p, p.len() - 1);
                        assert(false);
                    }
                }
            }
        }
    }
}

// the statement for a complete postorder node list (targets of the edge list, root last)
pub open spec fn scc_order_ok<K, N, E>(ns: Seq<Node<K, N, E>>, acc: spec_fn(Edge<K, N, E>) -> bool, adj: spec_fn(Node<K, N, E>) -> Seq<Edge<K, N, E>>) -> bool {
    forall|i: int, j: int| 0 <= i < ns.len() && 0 <= j < ns.len() && reach0(#[trigger] ns[i], (#[trigger] ns[j]).k(), acc, adj) && !reach0(ns[j], ns[i].k(), acc, adj)
        ==> exists|k: int| j < k < ns.len() && #[trigger] mutual(ns[i], ns[k], acc, adj)
}
pub proof fn lemma_scc_order<K, N, E>(r: Seq<Edge<K, N, E>>, root: Node<K, N, E>, acc: spec_fn(Edge<K, N, E>) -> bool, adj: spec_fn(Node<K, N, E>) -> Seq<Edge<K, N, E>>)
    requires scc_seg_ok(r, 0, root, acc, adj)
    ensures scc_order_ok(tgts(r).push(root), acc, adj)
{
    reveal(scc_seg_ok);
    let ns = tgts(r).push(root);
    assert forall|i: int, j: int| 0 <= i < ns.len() && 0 <= j < ns.len() && reach0(#[trigger] ns[i], (#[trigger] ns[j]).k(), acc, adj) && !reach0(ns[j], ns[i].k(), acc, adj)
        implies exists|k: int| j < k < ns.len() && #[trigger] mutual(ns[i], ns[k], acc, adj) by {
        assert(sn(r, root, i) == ns[i]);
        assert(sn(r, root, j) == ns[j]);
        assert(scc_pair_ok(r, root, i, j, acc, adj));
        let k = choose|k: int| j < k <= r.len() && #[trigger] mutual(sn(r, root, i), sn(r, root, k), acc, adj);
        assert(sn(r, root, k) == ns[k]);
    }
}

pub proof fn lemma_scc_init<K, N, E>(r: Seq<Edge<K, N, E>>, top: Node<K, N, E>, acc: spec_fn(Edge<K, N, E>) -> bool, adj: spec_fn(Node<K, N, E>) -> Seq<Edge<K, N, E>>)
    ensures scc_seg_ok(r, r.len() as int, top, acc, adj), seg_reach(r, r.len() as int, top, acc, adj)
{
    reveal(scc_seg_ok); reveal(seg_reach);
}
pub proof fn lemma_cp_init<K, N, E>(vis: Set<K>, root: Node<K, N, E>, acc: spec_fn(Edge<K, N, E>) -> bool, adj: spec_fn(Node<K, N, E>) -> Seq<Edge<K, N, E>>)
    requires forall|n: Node<K, N, E>| #[trigger] universe::<K, N, E>().contains(n) && vis.contains(n.k()) ==> n == root
    ensures cp_ok(vis, root, acc, adj)
{
    reveal(cp_ok);
}

// ---- node-level summary of an ordering search: every reachable node exactly once ----
pub open spec fn nodes_reach<K, N, E>(ns: Seq<Node<K, N, E>>, root: Node<K, N, E>, acc: spec_fn(Edge<K, N, E>) -> bool, adj: spec_fn(Node<K, N, E>) -> Seq<Edge<K, N, E>>) -> bool {
    &&& forall|i: int| 0 <= i < ns.len() ==> universe::<K, N, E>().contains(#[trigger] ns[i]) && reach0(root, ns[i].k(), acc, adj)
    &&& forall|i: int, j: int| 0 <= i < j < ns.len() ==> (#[trigger] ns[i]).k() != (#[trigger] ns[j]).k()
    &&& forall|k: K| #[trigger] reach0(root, k, acc, adj) ==> exists|i: int| 0 <= i < ns.len() && (#[trigger] ns[i]).k() == k
}
pub proof fn lemma_nodes_reach_post<K, N, E>(es: Seq<Edge<K, N, E>>, root: Node<K, N, E>, acc: spec_fn(Edge<K, N, E>) -> bool, adj: spec_fn(Node<K, N, E>) -> Seq<Edge<K, N, E>>)
    requires universe::<K, N, E>().contains(root), covers_reach(es, root, acc, adj), distinct_targets(es),
        forall|i: int| 0 <= i < es.len() ==> universe::<K, N, E>().contains((#[trigger] es[i]).1),
    ensures nodes_reach(tgts(es).push(root), root, acc, adj)
{
    let ns = tgts(es).push(root);
    assert forall|i: int| 0 <= i < ns.len() implies universe::<K, N, E>().contains(#[trigger] ns[i]) && reach0(root, ns[i].k(), acc, adj) by {
        if i < es.len() { assert(ns[i] == es[i].1); }
    }
    assert forall|i: int, j: int| 0 <= i < j < ns.len() implies (#[trigger] ns[i]).k() != (#[trigger] ns[j]).k() by {
        assert(ns[i] == es[i].1);
        if j < es.len() { assert(ns[j] == es[j].1); }
    }
    assert forall|k: K| #[trigger] reach0(root, k, acc, adj) implies exists|i: int| 0 <= i < ns.len() && (#[trigger] ns[i]).k() == k by {
        if k == root.k() { assert(ns[es.len() as int].k() == k); }
        else {
            let i = choose|i: int| 0 <= i < es.len() && (#[trigger] es[i]).1.k() == k;
            assert(ns[i] == es[i].1);
        }
    }
}
pub proof fn lemma_nodes_reach_pre<K, N, E>(es: Seq<Edge<K, N, E>>, root: Node<K, N, E>, acc: spec_fn(Edge<K, N, E>) -> bool, adj: spec_fn(Node<K, N, E>) -> Seq<Edge<K, N, E>>)
    requires universe::<K, N, E>().contains(root), covers_reach(es, root, acc, adj), distinct_targets(es),
        forall|i: int| 0 <= i < es.len() ==> universe::<K, N, E>().contains((#[trigger] es[i]).1),
    ensures nodes_reach(seq![root] + tgts(es), root, acc, adj)
{
    let ns = seq![root] + tgts(es);
    assert forall|i: int| 0 <= i < ns.len() implies universe::<K, N, E>().contains(#[trigger] ns[i]) && reach0(root, ns[i].k(), acc, adj) by {
        if i > 0 { assert(ns[i] == es[i - 1].1); }
    }
    assert forall|i: int, j: int| 0 <= i < j < ns.len() implies (#[trigger] ns[i]).k() != (#[trigger] ns[j]).k() by {
        assert(ns[j] == es[j - 1].1);
        if i > 0 { assert(ns[i] == es[i - 1].1); }
    }
    assert forall|k: K| #[trigger] reach0(root, k, acc, adj) implies exists|i: int| 0 <= i < ns.len() && (#[trigger] ns[i]).k() == k by {
        if k == root.k() { assert(ns[0].k() == k); }
        else {
            let i = choose|i: int| 0 <= i < es.len() && (#[trigger] es[i]).1.k() == k;
            assert(ns[i + 1] == es[i].1);
        }
    }
}


// the targets of an edge tree are live nodes
pub proof fn lemma_tree_targets_uni<K, N, E>(es: Seq<Edge<K, N, E>>, root: Node<K, N, E>, acc: spec_fn(Edge<K, N, E>) -> bool, adj: spec_fn(Node<K, N, E>) -> Seq<Edge<K, N, E>>, post: bool)
    requires graph_ok(adj), if post { ptree(es, root, acc, adj) } else { tree(es, root, acc, adj) }
    ensures forall|i: int| 0 <= i < es.len() ==> universe::<K, N, E>().contains((#[trigger] es[i]).1)
{
    reveal(ptree); reveal(tree);
    assert forall|i: int| 0 <= i < es.len() implies universe::<K, N, E>().contains((#[trigger] es[i]).1) by {
        let e = es[i];
        assert(in_adj(e, adj));
        let j = choose|j: int| 0 <= j < adj(e.0).len() && (#[trigger] adj(e.0)[j]) == e;
        assert(universe::<K, N, E>().contains(adj(e.0)[j].1));
    }
}
