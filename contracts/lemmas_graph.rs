// ===== lemmas_graph.rs : abstract directed multigraph state, transition functions
// (written from the statement of C03), invariants (C01) and their preservation. =====

pub struct GS<K, E> {
    pub out: Map<K, Seq<(K, E)>>,
    pub inn: Map<K, Seq<(K, E)>>,
}

// entries of s whose key is not k, order kept
pub open spec fn without<K, E>(s: Seq<(K, E)>, k: K) -> Seq<(K, E)>
    decreases s.len()
{
    if s.len() == 0 { s } else if s[0].0 == k { without(s.drop_first(), k) } else { seq![s[0]] + without(s.drop_first(), k) }
}

impl<K, E> GS<K, E> {
    pub open spec fn dom(self) -> Set<K> { self.out.dom() }

    // every peer is a member (peers are live nodes)
    pub open spec fn wf(self) -> bool {
        &&& self.out.dom() == self.inn.dom()
        &&& forall|u: K, i: int| self.dom().contains(u) && 0 <= i < self.out[u].len() ==> self.dom().contains((#[trigger] self.out[u][i]).0)
        &&& forall|u: K, i: int| self.dom().contains(u) && 0 <= i < self.inn[u].len() ==> self.dom().contains((#[trigger] self.inn[u][i]).0)
    }

    // C01: for each pair (u,v) the values u lists towards v are exactly the values v lists
    // from u, same multiplicity, same relative order
    pub open spec fn mirror(self) -> bool {
        forall|u: K, v: K| self.dom().contains(u) && self.dom().contains(v) ==> #[trigger] proj(self.out[u], v) == #[trigger] proj(self.inn[v], u)
    }

    pub open spec fn inv(self) -> bool { self.wf() && self.mirror() }
}

// ---- transition functions (C03) ----
pub open spec fn g_connect<K, E>(g: GS<K, E>, u: K, v: K, e: E) -> GS<K, E> {
    GS { out: g.out.insert(u, g.out[u].push((v, e))), inn: g.inn.insert(v, g.inn[v].push((u, e))) }
}

pub open spec fn g_connected<K, E>(g: GS<K, E>, u: K, v: K) -> bool { first_idx(g.out[u], v) >= 0 }

pub open spec fn g_try_connect<K, E>(g: GS<K, E>, u: K, v: K, e: E) -> (GS<K, E>, bool) {
    if g_connected(g, u, v) { (g, false) } else { (g_connect(g, u, v, e), true) }
}

pub open spec fn g_disconnect<K, E>(g: GS<K, E>, u: K, v: K) -> (GS<K, E>, Option<E>) {
    let i = first_idx(g.out[u], v);
    if i < 0 { (g, None) } else {
        let j = first_idx(g.inn[v], u);
        (GS { out: g.out.insert(u, g.out[u].remove(i)), inn: g.inn.insert(v, g.inn[v].remove(j)) }, Some(g.out[u][i].1))
    }
}

pub open spec fn g_isolate<K, E>(g: GS<K, E>, u: K) -> GS<K, E> {
    GS {
        out: Map::new(g.dom(), |k: K| if k == u { Seq::empty() } else { without(g.out[k], u) }),
        inn: Map::new(g.dom(), |k: K| if k == u { Seq::empty() } else { without(g.inn[k], u) }),
    }
}

// ---- without: facts ----
pub proof fn lemma_without_elems<K, E>(s: Seq<(K, E)>, k: K)
    ensures
        forall|i: int| 0 <= i < without(s, k).len() ==> (#[trigger] without(s, k)[i]).0 != k && s.contains(without(s, k)[i]),
        without(s, k).len() <= s.len(),
    decreases s.len()
{
    if s.len() == 0 {
    } else {
        let t = s.drop_first();
        let wt = without(t, k);
        let w = without(s, k);
        lemma_without_elems(t, k);
        assert forall|i: int| 0 <= i < w.len() implies (#[trigger] w[i]).0 != k && s.contains(w[i]) by {
            if s[0].0 == k {
                assert(w == wt);
                let x = wt[i];
                assert(t.contains(x));
                let j = choose|j: int| 0 <= j < t.len() && t[j] == x;
                assert(s[j + 1] == x);
            } else {
                assert(w == seq![s[0]] + wt);
                if i == 0 { assert(s[0] == w[0]); } else {
                    let x = wt[i - 1];
                    assert(w[i] == x);
                    assert(t.contains(x));
                    let j = choose|j: int| 0 <= j < t.len() && t[j] == x;
                    assert(s[j + 1] == x);
                }
            }
        }
    }
}

pub proof fn lemma_without_proj<K, E>(s: Seq<(K, E)>, k: K, k2: K)
    ensures proj(without(s, k), k2) == if k2 == k { Seq::<E>::empty() } else { proj(s, k2) }
    decreases s.len()
{
    if s.len() == 0 {
    } else {
        let t = s.drop_first();
        lemma_without_proj(t, k, k2);
        if s[0].0 != k {
            let w = without(s, k);
            assert(w == seq![s[0]] + without(t, k));
            assert(w.drop_first() =~= without(t, k));
            assert(w[0] == s[0]);
        }
    }
}

pub proof fn lemma_without_props<K, E>(s: Seq<(K, E)>, k: K)
    ensures
        forall|i: int| 0 <= i < without(s, k).len() ==> (#[trigger] without(s, k)[i]).0 != k && s.contains(without(s, k)[i]),
        proj(without(s, k), k) == Seq::<E>::empty(),
        forall|k2: K| k2 != k ==> #[trigger] proj(without(s, k), k2) == proj(s, k2),
        without(s, k).len() <= s.len(),
{
    lemma_without_elems(s, k);
    lemma_without_proj(s, k, k);
    assert forall|k2: K| k2 != k implies #[trigger] proj(without(s, k), k2) == proj(s, k2) by { lemma_without_proj(s, k, k2); }
}

// ---- preservation ----
pub proof fn lemma_connect_inv<K, E>(g: GS<K, E>, u: K, v: K, e: E)
    requires g.inv(), g.dom().contains(u), g.dom().contains(v)
    ensures g_connect(g, u, v, e).inv(), g_connect(g, u, v, e).dom() == g.dom()
{
    let h = g_connect(g, u, v, e);
    assert(h.out.dom() =~= g.out.dom());
    assert(h.inn.dom() =~= g.inn.dom());
    assert forall|a: K, b: K| h.dom().contains(a) && h.dom().contains(b) implies #[trigger] proj(h.out[a], b) == #[trigger] proj(h.inn[b], a) by {
        assert(proj(g.out[a], b) == proj(g.inn[b], a));
        lemma_proj_push(g.out[u], (v, e), b);
        lemma_proj_push(g.inn[v], (u, e), a);
    }
}

pub proof fn lemma_disconnect_inv<K, E>(g: GS<K, E>, u: K, v: K)
    requires g.inv(), g.dom().contains(u)
    ensures
        g_disconnect(g, u, v).0.inv(),
        g_disconnect(g, u, v).0.dom() == g.dom(),
        // the partner entry exists and carries the same value
        g_connected(g, u, v) ==> g.dom().contains(v) && first_idx(g.inn[v], u) >= 0
            && g.inn[v][first_idx(g.inn[v], u)].1 == g.out[u][first_idx(g.out[u], v)].1,
{
    let i = first_idx(g.out[u], v);
    if i >= 0 {
        lemma_first_idx_props(g.out[u], v);
        assert(g.dom().contains(g.out[u][i].0));
        lemma_proj_first(g.out[u], v);
        assert(proj(g.out[u], v) == proj(g.inn[v], u));
        lemma_proj_first(g.inn[v], u);
        let j = first_idx(g.inn[v], u);
        let h = g_disconnect(g, u, v).0;
        assert(h.out.dom() =~= g.out.dom());
        assert(h.inn.dom() =~= g.inn.dom());
        assert forall|a: K, b: K| h.dom().contains(a) && h.dom().contains(b) implies #[trigger] proj(h.out[a], b) == #[trigger] proj(h.inn[b], a) by {
            assert(proj(g.out[a], b) == proj(g.inn[b], a));
            lemma_proj_remove(g.out[u], v, b);
            lemma_proj_remove(g.inn[v], u, a);
        }
        assert forall|a: K, x: int| h.dom().contains(a) && 0 <= x < h.out[a].len() implies h.dom().contains((#[trigger] h.out[a][x]).0) by {
            if a == u { if x < i { assert(h.out[a][x] == g.out[u][x]); } else { assert(h.out[a][x] == g.out[u][x + 1]); } }
        }
        assert forall|a: K, x: int| h.dom().contains(a) && 0 <= x < h.inn[a].len() implies h.dom().contains((#[trigger] h.inn[a][x]).0) by {
            if a == v { if x < j { assert(h.inn[a][x] == g.inn[v][x]); } else { assert(h.inn[a][x] == g.inn[v][x + 1]); } }
        }
    }
}

pub proof fn lemma_isolate_inv<K, E>(g: GS<K, E>, u: K)
    requires g.inv(), g.dom().contains(u)
    ensures g_isolate(g, u).inv(), g_isolate(g, u).dom() == g.dom()
{
    let h = g_isolate(g, u);
    assert(h.out.dom() =~= g.out.dom());
    assert(h.inn.dom() =~= g.inn.dom());
    assert forall|a: K, b: K| h.dom().contains(a) && h.dom().contains(b) implies #[trigger] proj(h.out[a], b) == #[trigger] proj(h.inn[b], a) by {
        assert(proj(g.out[a], b) == proj(g.inn[b], a));
        lemma_without_props(g.out[a], u);
        lemma_without_props(g.inn[b], u);
        lemma_proj_empty::<K, E>(a);
        lemma_proj_empty::<K, E>(b);
    }
    assert forall|a: K, x: int| h.dom().contains(a) && 0 <= x < h.out[a].len() implies h.dom().contains((#[trigger] h.out[a][x]).0) by {
        lemma_without_props(g.out[a], u);
        if a != u {
            let y = without(g.out[a], u)[x];
            assert(g.out[a].contains(y));
            let j = choose|j: int| 0 <= j < g.out[a].len() && g.out[a][j] == y;
            assert(g.dom().contains(g.out[a][j].0));
        }
    }
    assert forall|a: K, x: int| h.dom().contains(a) && 0 <= x < h.inn[a].len() implies h.dom().contains((#[trigger] h.inn[a][x]).0) by {
        lemma_without_props(g.inn[a], u);
        if a != u {
            let y = without(g.inn[a], u)[x];
            assert(g.inn[a].contains(y));
            let j = choose|j: int| 0 <= j < g.inn[a].len() && g.inn[a][j] == y;
            assert(g.dom().contains(g.inn[a][j].0));
        }
    }
}

// ---- histories (C01: after every prefix of every finite history) ----
pub enum Op<K, E> {
    Connect(K, K, E),
    TryConnect(K, K, E),
    Disconnect(K, K),
    Isolate(K),
}

pub open spec fn op_ok<K, E>(g: GS<K, E>, op: Op<K, E>) -> bool {
    match op {
        Op::Connect(u, v, _) => g.dom().contains(u) && g.dom().contains(v),
        Op::TryConnect(u, v, _) => g.dom().contains(u) && g.dom().contains(v),
        Op::Disconnect(u, _) => g.dom().contains(u),   // the second operand is a key, any key
        Op::Isolate(u) => g.dom().contains(u),
    }
}

pub open spec fn apply<K, E>(g: GS<K, E>, op: Op<K, E>) -> GS<K, E> {
    match op {
        Op::Connect(u, v, e) => g_connect(g, u, v, e),
        Op::TryConnect(u, v, e) => g_try_connect(g, u, v, e).0,
        Op::Disconnect(u, v) => g_disconnect(g, u, v).0,
        Op::Isolate(u) => g_isolate(g, u),
    }
}

pub open spec fn run<K, E>(g: GS<K, E>, ops: Seq<Op<K, E>>) -> GS<K, E>
    decreases ops.len()
{
    if ops.len() == 0 { g } else { apply(run(g, ops.drop_last()), ops.last()) }
}

pub open spec fn ops_ok<K, E>(dom: Set<K>, ops: Seq<Op<K, E>>) -> bool {
    forall|i: int| 0 <= i < ops.len() ==> match #[trigger] ops[i] {
        Op::Connect(u, v, _) => dom.contains(u) && dom.contains(v),
        Op::TryConnect(u, v, _) => dom.contains(u) && dom.contains(v),
        Op::Disconnect(u, _) => dom.contains(u),
        Op::Isolate(u) => dom.contains(u),
    }
}

pub proof fn lemma_apply_inv<K, E>(g: GS<K, E>, op: Op<K, E>)
    requires g.inv(), op_ok(g, op)
    ensures apply(g, op).inv(), apply(g, op).dom() == g.dom()
{
    match op {
        Op::Connect(u, v, e) => { lemma_connect_inv(g, u, v, e); }
        Op::TryConnect(u, v, e) => { lemma_connect_inv(g, u, v, e); }
        Op::Disconnect(u, v) => { lemma_disconnect_inv(g, u, v); }
        Op::Isolate(u) => { lemma_isolate_inv(g, u); }
    }
}

// the empty graph over any key set satisfies the invariant
pub open spec fn g_empty<K, E>(dom: Set<K>) -> GS<K, E> {
    GS { out: Map::new(dom, |k: K| Seq::empty()), inn: Map::new(dom, |k: K| Seq::empty()) }
}

pub proof fn lemma_empty_inv<K, E>(dom: Set<K>)
    ensures g_empty::<K, E>(dom).inv(), g_empty::<K, E>(dom).dom() == dom
{
    let g = g_empty::<K, E>(dom);
    assert(g.out.dom() =~= g.inn.dom());
    assert(g.dom() =~= dom);
}

// C01 for all histories: after EVERY prefix of any finite sequence of operations on
// members, starting from any state satisfying the invariant (in particular from freshly
// created nodes), the invariant holds.
pub proof fn lemma_history<K, E>(g: GS<K, E>, ops: Seq<Op<K, E>>, n: int)
    requires g.inv(), ops_ok(g.dom(), ops), 0 <= n <= ops.len()
    ensures run(g, ops.take(n)).inv(), run(g, ops.take(n)).dom() == g.dom()
    decreases n
{
    if n == 0 {
        assert(ops.take(0).len() == 0);
    } else {
        lemma_history(g, ops, n - 1);
        let p = ops.take(n);
        assert(p.drop_last() =~= ops.take(n - 1));
        assert(p.last() == ops[n - 1]);
        let gp = run(g, ops.take(n - 1));
        lemma_apply_inv(gp, ops[n - 1]);
    }
}

// ===== undirected reading of the same state (C02) =====
// out(u): half-edges u created; inn(u): half-edges its peers created; adj(u) = out(u) ++ inn(u).
// The symmetry invariant SYM is the same formula as MIRROR.
pub open spec fn gu_adj<K, E>(g: GS<K, E>, u: K) -> Seq<(K, E)> { g.out[u] + g.inn[u] }

pub open spec fn gu_connected<K, E>(g: GS<K, E>, u: K, v: K) -> bool {
    first_idx(g.out[u], v) >= 0 || first_idx(g.inn[u], v) >= 0
}

pub open spec fn gu_try_connect<K, E>(g: GS<K, E>, u: K, v: K, e: E) -> (GS<K, E>, bool) {
    if gu_connected(g, u, v) { (g, false) } else { (g_connect(g, u, v, e), true) }
}

// removes one edge between u and v (the oldest one v created, else the oldest one u created)
// together with its partner half at the other endpoint
pub open spec fn gu_disconnect<K, E>(g: GS<K, E>, u: K, v: K) -> (GS<K, E>, Option<E>) {
    if first_idx(g.inn[u], v) >= 0 { g_disconnect(g, v, u) } else { g_disconnect(g, u, v) }
}

pub proof fn lemma_gu_disconnect_inv<K, E>(g: GS<K, E>, u: K, v: K)
    requires g.inv(), g.dom().contains(u)
    ensures
        gu_disconnect(g, u, v).0.inv(),
        gu_disconnect(g, u, v).0.dom() == g.dom(),
        gu_disconnect(g, u, v).1.is_some() <==> gu_connected(g, u, v),
        first_idx(g.inn[u], v) >= 0 ==> g.dom().contains(v) && first_idx(g.out[v], u) >= 0
            && g.out[v][first_idx(g.out[v], u)].1 == g.inn[u][first_idx(g.inn[u], v)].1,
        first_idx(g.out[u], v) >= 0 ==> g.dom().contains(v) && first_idx(g.inn[v], u) >= 0
            && g.inn[v][first_idx(g.inn[v], u)].1 == g.out[u][first_idx(g.out[u], v)].1,
{
    if first_idx(g.inn[u], v) >= 0 {
        lemma_first_idx_props(g.inn[u], v);
        let j = first_idx(g.inn[u], v);
        assert(g.dom().contains(g.inn[u][j].0));
        lemma_proj_first(g.inn[u], v);
        assert(proj(g.out[v], u) == proj(g.inn[u], v));
        lemma_proj_first(g.out[v], u);
        lemma_disconnect_inv(g, v, u);
    }
    if first_idx(g.out[u], v) >= 0 {
        lemma_disconnect_inv(g, u, v);
    }
    if first_idx(g.inn[u], v) < 0 {
        lemma_disconnect_inv(g, u, v);
    }
}

// is_connected answers the same from both ends
pub proof fn lemma_gu_connected_sym<K, E>(g: GS<K, E>, u: K, v: K)
    requires g.inv(), g.dom().contains(u), g.dom().contains(v)
    ensures gu_connected(g, u, v) == gu_connected(g, v, u)
{
    lemma_proj_first(g.out[u], v);
    lemma_proj_first(g.inn[u], v);
    lemma_proj_first(g.out[v], u);
    lemma_proj_first(g.inn[v], u);
    assert(proj(g.out[u], v) == proj(g.inn[v], u));
    assert(proj(g.out[v], u) == proj(g.inn[u], v));
}

// number of entries (k, e) in a list
pub open spec fn count_kv<K, E>(s: Seq<(K, E)>, k: K, e: E) -> nat
    decreases s.len()
{
    if s.len() == 0 { 0 } else { (if s[0].0 == k && s[0].1 == e { 1nat } else { 0nat }) + count_kv(s.drop_first(), k, e) }
}
pub open spec fn count_v<E>(s: Seq<E>, e: E) -> nat
    decreases s.len()
{
    if s.len() == 0 { 0 } else { (if s[0] == e { 1nat } else { 0nat }) + count_v(s.drop_first(), e) }
}
pub proof fn lemma_count_proj<K, E>(s: Seq<(K, E)>, k: K, e: E)
    ensures count_kv(s, k, e) == count_v(proj(s, k), e)
    decreases s.len()
{
    if s.len() > 0 {
        lemma_count_proj(s.drop_first(), k, e);
        if s[0].0 == k {
            let p = seq![s[0].1] + proj(s.drop_first(), k);
            assert(p.drop_first() =~= proj(s.drop_first(), k));
            assert(p[0] == s[0].1);
        }
    }
}
pub proof fn lemma_count_concat<K, E>(a: Seq<(K, E)>, b: Seq<(K, E)>, k: K, e: E)
    ensures count_kv(a + b, k, e) == count_kv(a, k, e) + count_kv(b, k, e)
    decreases a.len()
{
    if a.len() == 0 {
        assert(a + b =~= b);
    } else {
        assert((a + b).drop_first() =~= a.drop_first() + b);
        lemma_count_concat(a.drop_first(), b, k, e);
    }
}

// C02: u lists an edge to v with value e exactly as many times as v lists one to u
pub proof fn lemma_gu_sym_counts<K, E>(g: GS<K, E>, u: K, v: K, e: E)
    requires g.inv(), g.dom().contains(u), g.dom().contains(v)
    ensures count_kv(gu_adj(g, u), v, e) == count_kv(gu_adj(g, v), u, e)
{
    lemma_count_concat(g.out[u], g.inn[u], v, e);
    lemma_count_concat(g.out[v], g.inn[v], u, e);
    lemma_count_proj(g.out[u], v, e);
    lemma_count_proj(g.inn[u], v, e);
    lemma_count_proj(g.out[v], u, e);
    lemma_count_proj(g.inn[v], u, e);
    assert(proj(g.out[u], v) == proj(g.inn[v], u));
    assert(proj(g.out[v], u) == proj(g.inn[u], v));
}

// undirected histories
pub open spec fn apply_u<K, E>(g: GS<K, E>, op: Op<K, E>) -> GS<K, E> {
    match op {
        Op::Connect(u, v, e) => g_connect(g, u, v, e),
        Op::TryConnect(u, v, e) => gu_try_connect(g, u, v, e).0,
        Op::Disconnect(u, v) => gu_disconnect(g, u, v).0,
        Op::Isolate(u) => g_isolate(g, u),
    }
}
pub open spec fn run_u<K, E>(g: GS<K, E>, ops: Seq<Op<K, E>>) -> GS<K, E>
    decreases ops.len()
{
    if ops.len() == 0 { g } else { apply_u(run_u(g, ops.drop_last()), ops.last()) }
}
pub proof fn lemma_apply_u_inv<K, E>(g: GS<K, E>, op: Op<K, E>)
    requires g.inv(), op_ok(g, op)
    ensures apply_u(g, op).inv(), apply_u(g, op).dom() == g.dom()
{
    match op {
        Op::Connect(u, v, e) => { lemma_connect_inv(g, u, v, e); }
        Op::TryConnect(u, v, e) => { lemma_connect_inv(g, u, v, e); }
        Op::Disconnect(u, v) => { lemma_gu_disconnect_inv(g, u, v); }
        Op::Isolate(u) => { lemma_isolate_inv(g, u); }
    }
}
pub proof fn lemma_history_u<K, E>(g: GS<K, E>, ops: Seq<Op<K, E>>, n: int)
    requires g.inv(), ops_ok(g.dom(), ops), 0 <= n <= ops.len()
    ensures run_u(g, ops.take(n)).inv(), run_u(g, ops.take(n)).dom() == g.dom()
    decreases n
{
    if n == 0 {
        assert(ops.take(0).len() == 0);
    } else {
        lemma_history_u(g, ops, n - 1);
        let p = ops.take(n);
        assert(p.drop_last() =~= ops.take(n - 1));
        assert(p.last() == ops[n - 1]);
        lemma_apply_u_inv(run_u(g, ops.take(n - 1)), ops[n - 1]);
    }
}

// ===== serde: rebuilding a graph from a document (C12, C13) =====
pub open spec fn doc_keys<K, N>(nodes: Seq<(K, N)>) -> Set<K> {
    nodes.map_values(|kv: (K, N)| kv.0).to_set()
}
// value of the first declaration of key k
pub open spec fn first_val<K, N>(nodes: Seq<(K, N)>, k: K) -> N
    decreases nodes.len()
{
    if nodes.len() == 0 { arbitrary() } else if nodes[0].0 == k { nodes[0].1 } else { first_val(nodes.drop_first(), k) }
}
// connect the listed edges in order; None as soon as an edge names a key that is not a member
pub open spec fn g_fold<K, E>(g: GS<K, E>, edges: Seq<(K, K, E)>) -> Option<GS<K, E>>
    decreases edges.len()
{
    if edges.len() == 0 { Some(g) } else {
        match g_fold(g, edges.drop_last()) {
            None => None,
            Some(h) => {
                let e = edges.last();
                if h.dom().contains(e.0) && h.dom().contains(e.1) { Some(g_connect(h, e.0, e.1, e.2)) } else { None }
            }
        }
    }
}

pub proof fn lemma_fold_inv<K, E>(g: GS<K, E>, edges: Seq<(K, K, E)>)
    requires g.inv()
    ensures g_fold(g, edges).is_some() ==> g_fold(g, edges).unwrap().inv() && g_fold(g, edges).unwrap().dom() == g.dom()
    decreases edges.len()
{
    if edges.len() > 0 {
        lemma_fold_inv(g, edges.drop_last());
        match g_fold(g, edges.drop_last()) {
            None => {}
            Some(h) => {
                let e = edges.last();
                if h.dom().contains(e.0) && h.dom().contains(e.1) { lemma_connect_inv(h, e.0, e.1, e.2); }
            }
        }
    }
}

pub proof fn lemma_fold_step<K, E>(g: GS<K, E>, edges: Seq<(K, K, E)>, i: int)
    requires 0 <= i < edges.len()
    ensures g_fold(g, edges.take(i + 1)) == match g_fold(g, edges.take(i)) {
        None => None::<GS<K, E>>,
        Some(h) => if h.dom().contains(edges[i].0) && h.dom().contains(edges[i].1) { Some(g_connect(h, edges[i].0, edges[i].1, edges[i].2)) } else { None },
    }
{
    let p = edges.take(i + 1);
    assert(p.drop_last() =~= edges.take(i));
    assert(p.last() == edges[i]);
}

// once the fold has failed it stays failed
pub proof fn lemma_fold_none<K, E>(g: GS<K, E>, edges: Seq<(K, K, E)>, i: int)
    requires 0 <= i <= edges.len(), g_fold(g, edges.take(i)).is_none()
    ensures g_fold(g, edges).is_none()
    decreases edges.len() - i
{
    if i < edges.len() {
        lemma_fold_step(g, edges, i);
        lemma_fold_none(g, edges, i + 1);
    } else {
        assert(edges.take(i) =~= edges);
    }
}

pub proof fn lemma_doc_keys_push<K, N>(p: Seq<(K, N)>, x: (K, N))
    ensures doc_keys(p.push(x)) == doc_keys(p).insert(x.0)
{
    let a = p.push(x).map_values(|kv: (K, N)| kv.0);
    let b = p.map_values(|kv: (K, N)| kv.0);
    assert(a =~= b.push(x.0));
    assert forall|k: K| a.to_set().contains(k) <==> b.to_set().insert(x.0).contains(k) by {
        if a.to_set().contains(k) {
            let i = choose|i: int| 0 <= i < a.len() && a[i] == k;
            if i < b.len() { assert(b[i] == k); assert(b.contains(k)); }
        }
        if b.to_set().insert(x.0).contains(k) {
            if k == x.0 { assert(a[b.len() as int] == k); assert(a.contains(k)); }
            else {
                assert(b.contains(k));
                let i = choose|i: int| 0 <= i < b.len() && b[i] == k;
                assert(a[i] == k); assert(a.contains(k));
            }
        }
    }
    assert(a.to_set() =~= b.to_set().insert(x.0));
}

pub proof fn lemma_doc_keys_empty<K, N>()
    ensures doc_keys(Seq::<(K, N)>::empty()) == Set::<K>::empty()
{
    let a = Seq::<(K, N)>::empty().map_values(|kv: (K, N)| kv.0);
    assert(a =~= Seq::<K>::empty());
    assert(a.to_set() =~= Set::<K>::empty());
}

pub proof fn lemma_first_val_push<K, N>(p: Seq<(K, N)>, x: (K, N), k: K)
    ensures first_val(p.push(x), k) == if doc_keys(p).contains(k) { first_val(p, k) } else if x.0 == k { x.1 } else { first_val(p.push(x), k) }
    decreases p.len()
{
    if p.len() == 0 {
        assert(p.push(x).drop_first() =~= Seq::<(K, N)>::empty());
        lemma_doc_keys_empty::<K, N>();
        assert(p =~= Seq::<(K, N)>::empty());
    } else {
        let t = p.drop_first();
        assert(p.push(x).drop_first() =~= t.push(x));
        lemma_first_val_push(t, x, k);
        // doc_keys(p) = doc_keys(t) + p[0].0
        assert(p =~= seq![p[0]] + t);
        let a = p.map_values(|kv: (K, N)| kv.0);
        let b = t.map_values(|kv: (K, N)| kv.0);
        if p[0].0 != k {
            assert(a.to_set().contains(k) <==> b.to_set().contains(k)) by {
                if a.contains(k) { let i = choose|i: int| 0 <= i < a.len() && a[i] == k; assert(i > 0); assert(b[i - 1] == k); assert(b.contains(k)); }
                if b.contains(k) { let i = choose|i: int| 0 <= i < b.len() && b[i] == k; assert(a[i + 1] == k); assert(a.contains(k)); }
            }
        } else {
            assert(a[0] == k); assert(a.contains(k));
        }
    }
}
