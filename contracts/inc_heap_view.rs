impl<K, N, E> Heap<K, N, E>
where
    K: Clone + Hash + PartialEq + Eq,
    N: Clone,
    E: Clone,
{
    pub open spec fn out(&self, k: K) -> Seq<(K, E)> { self.cell(k).out() }
    pub open spec fn inn(&self, k: K) -> Seq<(K, E)> { self.cell(k).inn() }
    // the abstract multigraph this heap represents
    pub open spec fn view(&self) -> GS<K, E> {
        GS { out: Map::new(self.dom(), |k: K| self.out(k)), inn: Map::new(self.dom(), |k: K| self.inn(k)) }
    }
}

pub struct Edge<K, N, E>(pub Node<K, N, E>, pub Node<K, N, E>, pub E);

//@if dg,sdg
pub struct IterOut<'a, K, N, E> {
    pub node: &'a Node<K, N, E>,
    pub position: usize,
}
pub struct IterIn<'a, K, N, E> {
    pub node: &'a Node<K, N, E>,
    pub position: usize,
}

//@else
pub struct NodeIterator<'a, K, N, E> {
    pub node: &'a Node<K, N, E>,
    pub position: usize,
}
//@endif
pub open spec fn res_opt<E>(r: Result<E, Error>) -> Option<E> {
    match r { Ok(e) => Some(e), Err(_) => None }
}

