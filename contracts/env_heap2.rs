// ===== env_heap2.rs : TRUSTED heap (R4).  One cell per node key. =====
#[verifier::external_body]
#[verifier::accept_recursive_types(K)]
#[verifier::accept_recursive_types(N)]
#[verifier::accept_recursive_types(E)]
pub struct Heap<K, N, E> { _p: core::marker::PhantomData<(K, N, E)> }

impl<K, N, E> Heap<K, N, E> {
    pub uninterp spec fn dom(&self) -> Set<K>;
    pub uninterp spec fn cell(&self, k: K) -> Adjacent<K, N, E>;

    #[verifier::external_body]
    pub fn adj(&self, n: &Node<K, N, E>) -> (r: &Adjacent<K, N, E>)
        requires self.dom().contains(n.k())
        ensures *r == self.cell(n.k())
    { unimplemented!() }

    // R4d: a shared guard that stays live across other heap accesses (for-iterator, match scrutinee, let-bound guard):
    // the guarded cell as it is when the guard is taken. Faithful because R4b makes every access to the same cell
    // while the guard is live an obligation `guard_distinct` (RefCell would panic, RwLock self-deadlock).
    #[verifier::external_body]
    pub fn adj_snap(&self, n: &Node<K, N, E>) -> (r: Adjacent<K, N, E>)
        requires self.dom().contains(n.k())
        ensures r == self.cell(n.k())
    { unimplemented!() }

    #[verifier::external_body]
    pub fn adj_mut(&mut self, n: &Node<K, N, E>) -> (r: &mut Adjacent<K, N, E>)
        requires old(self).dom().contains(n.k())
        ensures *r == old(self).cell(n.k()),
            final(self).dom() == old(self).dom(),
            forall|k: K| k != n.k() ==> #[trigger] final(self).cell(k) == old(self).cell(k),
            final(self).cell(n.k()) == *final(r),
    { unimplemented!() }

}

impl<K, N, E> Node<K, N, E>
where
    K: Clone + Hash + PartialEq + Eq,
    N: Clone,
    E: Clone,
{
    // Node::new (real body hash-pinned): allocates a node with empty adjacency lists. The heap
    // identifies cells by key, so a second node with an existing key is modelled as `detached`.
    #[verifier::external_body]
    pub fn new(key: K, value: N, heap: &mut Heap<K, N, E>) -> (r: Self)
        ensures r.k() == key, r.val() == value,
            old(heap).dom().contains(key) ==> r.detached() && final(heap).dom() == old(heap).dom()
                && forall|k: K| #[trigger] final(heap).cell(k) == old(heap).cell(k),
            !old(heap).dom().contains(key) ==> !r.detached() && final(heap).dom() == old(heap).dom().insert(key)
                && final(heap).cell(key).out() == Seq::<(K, E)>::empty() && final(heap).cell(key).inn() == Seq::<(K, E)>::empty()
                && forall|k: K| k != key ==> #[trigger] final(heap).cell(k) == old(heap).cell(k),
    { unimplemented!() }
}
