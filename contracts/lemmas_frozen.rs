// ===== lemmas_frozen.rs : search vocabulary of the frozen world (DESIGN §4). No gdsl code. =====

pub open spec fn rev<K, N, E>(e: Edge<K, N, E>) -> Edge<K, N, E> { Edge(e.1, e.0, e.2) }

//@if dg,sdg
pub open spec fn adj_out<K, N, E>() -> spec_fn(Node<K, N, E>) -> Seq<Edge<K, N, E>> { |n: Node<K, N, E>| n.outs() }
// adjacency of the edge-reversed graph: a stored edge u->v(e), listed in v's inbound list as
// Edge(u, v, e), is reported as Edge(v, u, e)
pub open spec fn adj_in<K, N, E>() -> spec_fn(Node<K, N, E>) -> Seq<Edge<K, N, E>> {
    |n: Node<K, N, E>| n.ins().map_values(|e: Edge<K, N, E>| rev(e))
}
pub open spec fn adj_of<K, N, E>(t: Transposition) -> spec_fn(Node<K, N, E>) -> Seq<Edge<K, N, E>> {
    match t { Transposition::Outbound => adj_out(), Transposition::Inbound => adj_in() }
}
//@else
pub open spec fn adj_un<K, N, E>() -> spec_fn(Node<K, N, E>) -> Seq<Edge<K, N, E>> { |n: Node<K, N, E>| n.adjs() }
//@endif

pub open spec fn ukeys<K, N, E>() -> Set<K> { universe::<K, N, E>().map(|n: Node<K, N, E>| n.k()) }

// well-formedness of the frozen graph as seen through `adj`
pub open spec fn graph_ok<K, N, E>(adj: spec_fn(Node<K, N, E>) -> Seq<Edge<K, N, E>>) -> bool {
    &&& forall|n: Node<K, N, E>, i: int| universe::<K, N, E>().contains(n) && 0 <= i < adj(n).len() ==> (#[trigger] adj(n)[i]).0 == n
    &&& forall|n: Node<K, N, E>, i: int| universe::<K, N, E>().contains(n) && 0 <= i < adj(n).len() ==> universe::<K, N, E>().contains((#[trigger] adj(n)[i]).1)
    &&& keys_distinct::<K, N, E>()
}
#[verifier::opaque]
pub open spec fn keys_distinct<K, N, E>() -> bool {
    forall|a: Node<K, N, E>, b: Node<K, N, E>| universe::<K, N, E>().contains(a) && universe::<K, N, E>().contains(b) && a.k() == b.k() ==> a == b
}

pub proof fn lemma_keys<K, N, E>(a: Node<K, N, E>, b: Node<K, N, E>)
    requires keys_distinct::<K, N, E>(), universe::<K, N, E>().contains(a), universe::<K, N, E>().contains(b), a.k() == b.k()
    ensures a == b
{
    reveal(keys_distinct);
}

pub open spec fn in_adj<K, N, E>(e: Edge<K, N, E>, adj: spec_fn(Node<K, N, E>) -> Seq<Edge<K, N, E>>) -> bool {
    exists|i: int| 0 <= i < adj(e.0).len() && (#[trigger] adj(e.0)[i]) == e
}

// `r` is an edge tree grown from `root`: existing accepted edges, one per target, each
// starting at the root or at an earlier target
#[verifier::opaque]
pub open spec fn tree<K, N, E>(r: Seq<Edge<K, N, E>>, root: Node<K, N, E>, acc: spec_fn(Edge<K, N, E>) -> bool, adj: spec_fn(Node<K, N, E>) -> Seq<Edge<K, N, E>>) -> bool {
    &&& forall|i: int| 0 <= i < r.len() ==> universe::<K, N, E>().contains((#[trigger] r[i]).0) && in_adj(r[i], adj) && acc(r[i])
    &&& forall|i: int, j: int| 0 <= i < j < r.len() ==> (#[trigger] r[i]).1.k() != (#[trigger] r[j]).1.k()
    &&& forall|i: int| 0 <= i < r.len() ==> (#[trigger] r[i]).0 == root || exists|j: int| 0 <= j < i && r[j].1 == r[i].0
}
pub open spec fn vis_sup<K, N, E>(vis: Set<K>, r: Seq<Edge<K, N, E>>) -> bool {
    forall|i: int| 0 <= i < r.len() ==> vis.contains((#[trigger] r[i]).1.k())
}
pub open spec fn src_ok<K, N, E>(n: Node<K, N, E>, r: Seq<Edge<K, N, E>>, root: Node<K, N, E>) -> bool {
    n == root || exists|j: int| 0 <= j < r.len() && (#[trigger] r[j]).1 == n
}
// (vis1, r1) extends (vis0, r0): r0 is a prefix, the new visited keys are exactly the new
// targets, none of which was visited before
#[verifier::opaque]
pub open spec fn ext<K, N, E>(vis0: Set<K>, r0: Seq<Edge<K, N, E>>, vis1: Set<K>, r1: Seq<Edge<K, N, E>>) -> bool {
    &&& r0.len() <= r1.len()
    &&& r1.take(r0.len() as int) == r0
    &&& forall|k: K| vis1.contains(k) <==> (vis0.contains(k) || exists|i: int| r0.len() <= i < r1.len() && (#[trigger] r1[i]).1.k() == k)
    &&& forall|i: int| r0.len() <= i < r1.len() ==> !vis0.contains((#[trigger] r1[i]).1.k())
}

pub proof fn lemma_tree_empty<K, N, E>(root: Node<K, N, E>, acc: spec_fn(Edge<K, N, E>) -> bool, adj: spec_fn(Node<K, N, E>) -> Seq<Edge<K, N, E>>)
    ensures tree(Seq::<Edge<K, N, E>>::empty(), root, acc, adj), vis_sup(Set::<K>::empty(), Seq::<Edge<K, N, E>>::empty())
{
    reveal(tree);
}

pub proof fn lemma_ext_refl<K, N, E>(vis: Set<K>, r: Seq<Edge<K, N, E>>)
    ensures ext(vis, r, vis, r)
{
    reveal(tree); reveal(ext);    assert(r.take(r.len() as int) =~= r);
}

pub proof fn lemma_ext_push<K, N, E>(vis0: Set<K>, r0: Seq<Edge<K, N, E>>, vis: Set<K>, r: Seq<Edge<K, N, E>>, e: Edge<K, N, E>)
    requires ext(vis0, r0, vis, r), !vis.contains(e.1.k())
    ensures ext(vis0, r0, vis.insert(e.1.k()), r.push(e))
{
    reveal(tree); reveal(ext);    let r2 = r.push(e);
    let vis2 = vis.insert(e.1.k());
    assert(r2.take(r0.len() as int) =~= r.take(r0.len() as int));
    assert forall|k: K| vis2.contains(k) <==> (vis0.contains(k) || exists|i: int| r0.len() <= i < r2.len() && (#[trigger] r2[i]).1.k() == k) by {
        if vis2.contains(k) {
            if k == e.1.k() { assert(r2[r.len() as int].1.k() == k); }
            else if !vis0.contains(k) {
                let i = choose|i: int| r0.len() <= i < r.len() && (#[trigger] r[i]).1.k() == k;
                assert(r2[i] == r[i]);
            }
        } else {
            if exists|i: int| r0.len() <= i < r2.len() && (#[trigger] r2[i]).1.k() == k {
                let i = choose|i: int| r0.len() <= i < r2.len() && (#[trigger] r2[i]).1.k() == k;
                if i < r.len() { assert(r2[i] == r[i]); }
            }
        }
    }
    assert forall|i: int| r0.len() <= i < r2.len() implies !vis0.contains((#[trigger] r2[i]).1.k()) by {
        if i < r.len() { assert(r2[i] == r[i]); }
    }
}

pub proof fn lemma_ext_trans<K, N, E>(vis0: Set<K>, r0: Seq<Edge<K, N, E>>, vis1: Set<K>, r1: Seq<Edge<K, N, E>>, vis2: Set<K>, r2: Seq<Edge<K, N, E>>)
    requires ext(vis0, r0, vis1, r1), ext(vis1, r1, vis2, r2)
    ensures ext(vis0, r0, vis2, r2)
{
    reveal(tree); reveal(ext);    assert(r2.take(r0.len() as int) =~= r2.take(r1.len() as int).take(r0.len() as int));
    assert forall|k: K| vis2.contains(k) <==> (vis0.contains(k) || exists|i: int| r0.len() <= i < r2.len() && (#[trigger] r2[i]).1.k() == k) by {
        if vis2.contains(k) {
            if vis1.contains(k) {
                if !vis0.contains(k) {
                    let i = choose|i: int| r0.len() <= i < r1.len() && (#[trigger] r1[i]).1.k() == k;
                    assert(r2.take(r1.len() as int)[i] == r2[i]);
                }
            }
        } else {
            if exists|i: int| r0.len() <= i < r2.len() && (#[trigger] r2[i]).1.k() == k {
                let i = choose|i: int| r0.len() <= i < r2.len() && (#[trigger] r2[i]).1.k() == k;
                if i < r1.len() { assert(r2.take(r1.len() as int)[i] == r2[i]); assert(r1[i].1.k() == k); }
            }
        }
    }
    assert forall|i: int| r0.len() <= i < r2.len() implies !vis0.contains((#[trigger] r2[i]).1.k()) by {
        if i < r1.len() { assert(r2.take(r1.len() as int)[i] == r2[i]); assert(!vis0.contains(r1[i].1.k())); }
        else { assert(!vis1.contains(r2[i].1.k())); }
    }
}

pub proof fn lemma_tree_push<K, N, E>(r: Seq<Edge<K, N, E>>, root: Node<K, N, E>, acc: spec_fn(Edge<K, N, E>) -> bool, adj: spec_fn(Node<K, N, E>) -> Seq<Edge<K, N, E>>, vis: Set<K>, e: Edge<K, N, E>)
    requires tree(r, root, acc, adj), vis_sup(vis, r), universe::<K, N, E>().contains(e.0), in_adj(e, adj), acc(e), !vis.contains(e.1.k()), src_ok(e.0, r, root),
    ensures tree(r.push(e), root, acc, adj), vis_sup(vis.insert(e.1.k()), r.push(e)),
        forall|n: Node<K, N, E>| src_ok(n, r, root) ==> src_ok(n, r.push(e), root),
        src_ok(e.1, r.push(e), root),
{
    reveal(tree); reveal(ext);    let r2 = r.push(e);
    assert forall|i: int| 0 <= i < r2.len() implies universe::<K, N, E>().contains((#[trigger] r2[i]).0) && in_adj(r2[i], adj) && acc(r2[i]) by {
        if i < r.len() { assert(r2[i] == r[i]); }
    }
    assert forall|i: int, j: int| 0 <= i < j < r2.len() implies (#[trigger] r2[i]).1.k() != (#[trigger] r2[j]).1.k() by {
        if j < r.len() { assert(r2[i] == r[i] && r2[j] == r[j]); } else { assert(r2[i] == r[i]); assert(vis.contains(r[i].1.k())); }
    }
    assert forall|i: int| 0 <= i < r2.len() implies (#[trigger] r2[i]).0 == root || exists|j: int| 0 <= j < i && r2[j].1 == r2[i].0 by {
        if i < r.len() {
            assert(r2[i] == r[i]);
            if r[i].0 != root { let j = choose|j: int| 0 <= j < i && r[j].1 == r[i].0; assert(r2[j] == r[j]); }
        } else {
            if e.0 != root { let j = choose|j: int| 0 <= j < r.len() && (#[trigger] r[j]).1 == e.0; assert(r2[j] == r[j]); }
        }
    }
    assert forall|i: int| 0 <= i < r2.len() implies vis.insert(e.1.k()).contains((#[trigger] r2[i]).1.k()) by {
        if i < r.len() { assert(r2[i] == r[i]); }
    }
    assert forall|n: Node<K, N, E>| src_ok(n, r, root) implies src_ok(n, r2, root) by {
        if n != root { let j = choose|j: int| 0 <= j < r.len() && (#[trigger] r[j]).1 == n; assert(r2[j] == r[j]); }
    }
    assert(r2[r.len() as int].1 == e.1);
}

// ---- closedness (tier 2) ----
pub open spec fn closed_at<K, N, E>(n: Node<K, N, E>, vis: Set<K>, acc: spec_fn(Edge<K, N, E>) -> bool, adj: spec_fn(Node<K, N, E>) -> Seq<Edge<K, N, E>>) -> bool {
    forall|i: int| 0 <= i < adj(n).len() && acc(#[trigger] adj(n)[i]) ==> vis.contains(adj(n)[i].1.k())
}
pub open spec fn closed_upto<K, N, E>(n: Node<K, N, E>, m: int, vis: Set<K>, acc: spec_fn(Edge<K, N, E>) -> bool, adj: spec_fn(Node<K, N, E>) -> Seq<Edge<K, N, E>>) -> bool {
    forall|i: int| 0 <= i < m && i < adj(n).len() && acc(#[trigger] adj(n)[i]) ==> vis.contains(adj(n)[i].1.k())
}
// every node that is visited (or is the root) is pending in `q`, is the node being expanded,
// or has all its accepted edges leading into `vis`
pub open spec fn frontier_ok<K, N, E>(vis: Set<K>, root: Node<K, N, E>, q: Seq<Node<K, N, E>>, cur: Option<Node<K, N, E>>, acc: spec_fn(Edge<K, N, E>) -> bool, adj: spec_fn(Node<K, N, E>) -> Seq<Edge<K, N, E>>) -> bool {
    forall|n: Node<K, N, E>| #[trigger] universe::<K, N, E>().contains(n) && (vis.contains(n.k()) || n == root) ==> q.contains(n) || cur == Some(n) || closed_at(n, vis, acc, adj)
}
pub open spec fn all_closed<K, N, E>(vis: Set<K>, root: Node<K, N, E>, acc: spec_fn(Edge<K, N, E>) -> bool, adj: spec_fn(Node<K, N, E>) -> Seq<Edge<K, N, E>>) -> bool {
    forall|n: Node<K, N, E>| #[trigger] universe::<K, N, E>().contains(n) && (vis.contains(n.k()) || n == root) ==> closed_at(n, vis, acc, adj)
}

pub proof fn lemma_frontier_pop<K, N, E>(vis: Set<K>, root: Node<K, N, E>, q: Seq<Node<K, N, E>>, acc: spec_fn(Edge<K, N, E>) -> bool, adj: spec_fn(Node<K, N, E>) -> Seq<Edge<K, N, E>>)
    requires q.len() > 0, frontier_ok(vis, root, q, None, acc, adj)
    ensures frontier_ok(vis, root, q.drop_first(), Some(q[0]), acc, adj)
{
    assert forall|n: Node<K, N, E>| #[trigger] universe::<K, N, E>().contains(n) && (vis.contains(n.k()) || n == root) implies q.drop_first().contains(n) || Some(q[0]) == Some(n) || closed_at(n, vis, acc, adj) by {
        if q.contains(n) {
            let i = choose|i: int| 0 <= i < q.len() && q[i] == n;
            if i > 0 { assert(q.drop_first()[i - 1] == n); }
        }
    }
}
pub proof fn lemma_frontier_grow<K, N, E>(vis: Set<K>, root: Node<K, N, E>, q: Seq<Node<K, N, E>>, cur: Node<K, N, E>, acc: spec_fn(Edge<K, N, E>) -> bool, adj: spec_fn(Node<K, N, E>) -> Seq<Edge<K, N, E>>, v: Node<K, N, E>)
    requires graph_ok(adj), universe::<K, N, E>().contains(v), frontier_ok(vis, root, q, Some(cur), acc, adj)
    ensures frontier_ok(vis.insert(v.k()), root, q.push(v), Some(cur), acc, adj)
{
    reveal(keys_distinct);
    let vis2 = vis.insert(v.k());
    let q2 = q.push(v);
    assert forall|n: Node<K, N, E>| #[trigger] universe::<K, N, E>().contains(n) && (vis2.contains(n.k()) || n == root) implies q2.contains(n) || Some(cur) == Some(n) || closed_at(n, vis2, acc, adj) by {
        if n.k() == v.k() { assert(n == v); assert(q2[q.len() as int] == v); }
        else {
            if q.contains(n) { let i = choose|i: int| 0 <= i < q.len() && q[i] == n; assert(q2[i] == n); }
        }
    }
}

// ---- paths and reachability (defined without reference to the code) ----
#[verifier::opaque]
pub open spec fn is_path<K, N, E>(p: Seq<Edge<K, N, E>>, a: Node<K, N, E>, acc: spec_fn(Edge<K, N, E>) -> bool, adj: spec_fn(Node<K, N, E>) -> Seq<Edge<K, N, E>>) -> bool {
    &&& p.len() > 0
    &&& p[0].0 == a
    &&& forall|i: int| 0 <= i < p.len() ==> in_adj(#[trigger] p[i], adj) && acc(p[i])
    &&& forall|i: int| 0 <= i < p.len() - 1 ==> (#[trigger] p[i]).1 == p[i + 1].0
}
// some path of one or more accepted edges leads from a to a node with key k
#[verifier::opaque]
pub open spec fn reach<K, N, E>(a: Node<K, N, E>, k: K, acc: spec_fn(Edge<K, N, E>) -> bool, adj: spec_fn(Node<K, N, E>) -> Seq<Edge<K, N, E>>) -> bool {
    exists|p: Seq<Edge<K, N, E>>| is_path(p, a, acc, adj) && p.last().1.k() == k
}

// a closed visited set cannot be left along accepted edges
pub proof fn lemma_closed_path<K, N, E>(vis: Set<K>, root: Node<K, N, E>, acc: spec_fn(Edge<K, N, E>) -> bool, adj: spec_fn(Node<K, N, E>) -> Seq<Edge<K, N, E>>, p: Seq<Edge<K, N, E>>, i: int)
    requires graph_ok(adj), universe::<K, N, E>().contains(root), all_closed(vis, root, acc, adj), is_path(p, root, acc, adj), 0 <= i < p.len()
    ensures vis.contains(p[i].1.k()), universe::<K, N, E>().contains(p[i].1), universe::<K, N, E>().contains(p[i].0)
    decreases i
{
    reveal(is_path); reveal(keys_distinct);
    if i > 0 {
        lemma_closed_path(vis, root, acc, adj, p, i - 1);
        assert(p[i - 1].1 == p[i].0);
    }
    let e = p[i];
    assert(universe::<K, N, E>().contains(e.0));
    assert(in_adj(e, adj));
    let j = choose|j: int| 0 <= j < adj(e.0).len() && (#[trigger] adj(e.0)[j]) == e;
    assert(closed_at(e.0, vis, acc, adj));
    assert(acc(adj(e.0)[j]));
    assert(universe::<K, N, E>().contains(adj(e.0)[j].1));
}

pub proof fn lemma_closed_unreachable<K, N, E>(vis: Set<K>, root: Node<K, N, E>, acc: spec_fn(Edge<K, N, E>) -> bool, adj: spec_fn(Node<K, N, E>) -> Seq<Edge<K, N, E>>, k: K)
    requires graph_ok(adj), universe::<K, N, E>().contains(root), all_closed(vis, root, acc, adj), !vis.contains(k)
    ensures !reach(root, k, acc, adj)
{
    reveal(is_path);
    reveal(reach);
    if reach(root, k, acc, adj) {
        let p = choose|p: Seq<Edge<K, N, E>>| is_path(p, root, acc, adj) && p.last().1.k() == k;
        lemma_closed_path(vis, root, acc, adj, p, p.len() - 1);
    }
}

// ---- termination measure: number of universe keys not yet visited ----
pub open spec fn unvisited<K, N, E>(vis: Set<K>) -> nat { ukeys::<K, N, E>().difference(vis).len() }

pub proof fn lemma_unvisited_insert<K, N, E>(vis: Set<K>, v: Node<K, N, E>)
    requires universe::<K, N, E>().contains(v), !vis.contains(v.k())
    ensures unvisited::<K, N, E>(vis.insert(v.k())) < unvisited::<K, N, E>(vis)
{
    let uk = ukeys::<K, N, E>();
    assert(uk.contains(v.k()));
    let d = uk.difference(vis);
    assert(d.contains(v.k()));
    assert(uk.difference(vis.insert(v.k())) =~= d.remove(v.k()));
    vstd::set_lib::lemma_len_subset(d, uk);
}

// ---- reachability bookkeeping for the searches that keep no edge tree ----
pub proof fn lemma_path_in_uni<K, N, E>(a: Node<K, N, E>, acc: spec_fn(Edge<K, N, E>) -> bool, adj: spec_fn(Node<K, N, E>) -> Seq<Edge<K, N, E>>, p: Seq<Edge<K, N, E>>, i: int)
    requires graph_ok(adj), universe::<K, N, E>().contains(a), is_path(p, a, acc, adj), 0 <= i < p.len()
    ensures universe::<K, N, E>().contains(p[i].0), universe::<K, N, E>().contains(p[i].1)
    decreases i
{
    reveal(is_path); reveal(keys_distinct);
    if i > 0 {
        lemma_path_in_uni(a, acc, adj, p, i - 1);
        assert(p[i - 1].1 == p[i].0);
    }
    let e = p[i];
    let j = choose|j: int| 0 <= j < adj(e.0).len() && (#[trigger] adj(e.0)[j]) == e;
    assert(universe::<K, N, E>().contains(adj(e.0)[j].1));
}

// the node itself or something reachable from it
pub open spec fn reach0<K, N, E>(a: Node<K, N, E>, k: K, acc: spec_fn(Edge<K, N, E>) -> bool, adj: spec_fn(Node<K, N, E>) -> Seq<Edge<K, N, E>>) -> bool {
    k == a.k() || reach(a, k, acc, adj)
}

pub proof fn lemma_reach_step<K, N, E>(root: Node<K, N, E>, acc: spec_fn(Edge<K, N, E>) -> bool, adj: spec_fn(Node<K, N, E>) -> Seq<Edge<K, N, E>>, e: Edge<K, N, E>)
    requires graph_ok(adj), universe::<K, N, E>().contains(root), universe::<K, N, E>().contains(e.0),
        reach0(root, e.0.k(), acc, adj), in_adj(e, adj), acc(e),
    ensures reach(root, e.1.k(), acc, adj)
{
    reveal(is_path); reveal(keys_distinct);
    reveal(reach);
    if e.0.k() == root.k() {
        assert(e.0 == root);
        let p = seq![e];
        assert(is_path(p, root, acc, adj));
        assert(p.last().1.k() == e.1.k());
    } else {
        let p = choose|p: Seq<Edge<K, N, E>>| is_path(p, root, acc, adj) && p.last().1.k() == e.0.k();
        lemma_path_in_uni(root, acc, adj, p, p.len() - 1);
        assert(p.last().1 == e.0);
        let p2 = p.push(e);
        assert forall|i: int| 0 <= i < p2.len() implies in_adj(#[trigger] p2[i], adj) && acc(p2[i]) by {
            if i < p.len() { assert(p2[i] == p[i]); }
        }
        assert forall|i: int| 0 <= i < p2.len() - 1 implies (#[trigger] p2[i]).1 == p2[i + 1].0 by {
            assert(p2[i] == p[i]);
            if i + 1 < p.len() { assert(p2[i + 1] == p[i + 1]); }
        }
        assert(p2[0] == p[0]);
        assert(is_path(p2, root, acc, adj));
        assert(p2.last().1.k() == e.1.k());
    }
}

// a path proves reachability of its end
pub proof fn lemma_path_reach<K, N, E>(root: Node<K, N, E>, acc: spec_fn(Edge<K, N, E>) -> bool, adj: spec_fn(Node<K, N, E>) -> Seq<Edge<K, N, E>>, p: Seq<Edge<K, N, E>>)
    requires is_path(p, root, acc, adj)
    ensures reach(root, p.last().1.k(), acc, adj)
{
    reveal(is_path); reveal(keys_distinct);
    reveal(reach);
}

pub proof fn lemma_unvisited_mono<K, N, E>(a: Set<K>, b: Set<K>)
    requires forall|k: K| a.contains(k) ==> b.contains(k)
    ensures unvisited::<K, N, E>(b) <= unvisited::<K, N, E>(a)
{
    let uk = ukeys::<K, N, E>();
    assert(uk.difference(b).subset_of(uk.difference(a)));
    vstd::set_lib::lemma_len_subset(uk.difference(b), uk.difference(a));
}

// nodes that became visited between vis0 and vis1 are closed (DFS recursion postcondition)
pub open spec fn new_closed<K, N, E>(vis0: Set<K>, vis1: Set<K>, acc: spec_fn(Edge<K, N, E>) -> bool, adj: spec_fn(Node<K, N, E>) -> Seq<Edge<K, N, E>>) -> bool {
    forall|u: Node<K, N, E>| #[trigger] universe::<K, N, E>().contains(u) && vis1.contains(u.k()) && !vis0.contains(u.k()) ==> closed_at(u, vis1, acc, adj)
}

// ---- frontier with an arbitrary "pending" predicate (priority queue) ----
pub open spec fn frontier_p<K, N, E>(vis: Set<K>, root: Node<K, N, E>, pend: spec_fn(Node<K, N, E>) -> bool, cur: Option<Node<K, N, E>>, acc: spec_fn(Edge<K, N, E>) -> bool, adj: spec_fn(Node<K, N, E>) -> Seq<Edge<K, N, E>>) -> bool {
    forall|n: Node<K, N, E>| #[trigger] universe::<K, N, E>().contains(n) && (vis.contains(n.k()) || n == root) ==> pend(n) || cur == Some(n) || closed_at(n, vis, acc, adj)
}
pub proof fn lemma_frontier_p_pop<K, N, E>(vis: Set<K>, root: Node<K, N, E>, pend0: spec_fn(Node<K, N, E>) -> bool, pend1: spec_fn(Node<K, N, E>) -> bool, x: Node<K, N, E>, acc: spec_fn(Edge<K, N, E>) -> bool, adj: spec_fn(Node<K, N, E>) -> Seq<Edge<K, N, E>>)
    requires frontier_p(vis, root, pend0, None, acc, adj), forall|n: Node<K, N, E>| #[trigger] pend0(n) ==> pend1(n) || n == x
    ensures frontier_p(vis, root, pend1, Some(x), acc, adj)
{
    assert forall|n: Node<K, N, E>| #[trigger] universe::<K, N, E>().contains(n) && (vis.contains(n.k()) || n == root) implies pend1(n) || Some(x) == Some(n) || closed_at(n, vis, acc, adj) by {
        if pend0(n) {}
    }
}
pub proof fn lemma_frontier_p_grow<K, N, E>(vis: Set<K>, root: Node<K, N, E>, pend0: spec_fn(Node<K, N, E>) -> bool, pend1: spec_fn(Node<K, N, E>) -> bool, cur: Node<K, N, E>, acc: spec_fn(Edge<K, N, E>) -> bool, adj: spec_fn(Node<K, N, E>) -> Seq<Edge<K, N, E>>, v: Node<K, N, E>)
    requires graph_ok(adj), universe::<K, N, E>().contains(v), frontier_p(vis, root, pend0, Some(cur), acc, adj),
        forall|n: Node<K, N, E>| #[trigger] pend0(n) ==> pend1(n), pend1(v)
    ensures frontier_p(vis.insert(v.k()), root, pend1, Some(cur), acc, adj)
{
    reveal(keys_distinct);
    let vis2 = vis.insert(v.k());
    assert forall|n: Node<K, N, E>| #[trigger] universe::<K, N, E>().contains(n) && (vis2.contains(n.k()) || n == root) implies pend1(n) || Some(cur) == Some(n) || closed_at(n, vis2, acc, adj) by {
        if n.k() == v.k() { assert(n == v); }
        else { if pend0(n) {} }
    }
}

// the frontier predicate holds for a heap that contains (at least) the root, when nothing
// but the root is visited
pub proof fn lemma_pfs_start<K, N, E>(vis: Set<K>, root: Node<K, N, E>, acc: spec_fn(Edge<K, N, E>) -> bool, adj: spec_fn(Node<K, N, E>) -> Seq<Edge<K, N, E>>)
    requires keys_distinct::<K, N, E>(), universe::<K, N, E>().contains(root), forall|k: K| vis.contains(k) ==> k == root.k()
    ensures forall|pend: spec_fn(Node<K, N, E>) -> bool| pend(root) ==> #[trigger] frontier_p(vis, root, pend, None, acc, adj)
{
    reveal(keys_distinct);
    assert forall|pend: spec_fn(Node<K, N, E>) -> bool| pend(root) implies #[trigger] frontier_p(vis, root, pend, None, acc, adj) by {
        assert forall|n: Node<K, N, E>| #[trigger] universe::<K, N, E>().contains(n) && (vis.contains(n.k()) || n == root) implies pend(n) || None::<Node<K, N, E>> == Some(n) || closed_at(n, vis, acc, adj) by {
            assert(n == root);
        }
    }
}

// every target of a search tree is reachable from the root
pub proof fn lemma_tree_reach<K, N, E>(r: Seq<Edge<K, N, E>>, root: Node<K, N, E>, acc: spec_fn(Edge<K, N, E>) -> bool, adj: spec_fn(Node<K, N, E>) -> Seq<Edge<K, N, E>>, i: int)
    requires graph_ok(adj), universe::<K, N, E>().contains(root), tree(r, root, acc, adj), 0 <= i < r.len()
    ensures reach(root, r[i].1.k(), acc, adj)
    decreases i
{
    reveal(tree);
    if r[i].0 != root {
        let j = choose|j: int| 0 <= j < i && r[j].1 == r[i].0;
        lemma_tree_reach(r, root, acc, adj, j);
    }
    lemma_reach_step(root, acc, adj, r[i]);
}

// ---- orderings (C10) ----
// the targets of r are exactly the keys reachable from the root (other than the root's own key)
pub open spec fn covers_reach<K, N, E>(r: Seq<Edge<K, N, E>>, root: Node<K, N, E>, acc: spec_fn(Edge<K, N, E>) -> bool, adj: spec_fn(Node<K, N, E>) -> Seq<Edge<K, N, E>>) -> bool {
    forall|k: K| (exists|i: int| 0 <= i < r.len() && (#[trigger] r[i]).1.k() == k) <==> (k != root.k() && #[trigger] reach(root, k, acc, adj))
}

// finishing-order edge list: existing accepted edges, one per target, each starting at the root
// or at a target that is recorded LATER (a node is finished after all its tree children)
#[verifier::opaque]
pub open spec fn ptree<K, N, E>(r: Seq<Edge<K, N, E>>, root: Node<K, N, E>, acc: spec_fn(Edge<K, N, E>) -> bool, adj: spec_fn(Node<K, N, E>) -> Seq<Edge<K, N, E>>) -> bool {
    &&& forall|i: int| 0 <= i < r.len() ==> universe::<K, N, E>().contains((#[trigger] r[i]).0) && in_adj(r[i], adj) && acc(r[i])
    &&& forall|i: int, j: int| 0 <= i < j < r.len() ==> (#[trigger] r[i]).1.k() != (#[trigger] r[j]).1.k()
    &&& forall|i: int| 0 <= i < r.len() ==> (#[trigger] r[i]).0 == root || exists|j: int| i < j < r.len() && r[j].1 == r[i].0
}

// the edges recorded from index `from` on, during the expansion of `top`
pub open spec fn pedges<K, N, E>(r: Seq<Edge<K, N, E>>, from: int, top: Node<K, N, E>, acc: spec_fn(Edge<K, N, E>) -> bool, adj: spec_fn(Node<K, N, E>) -> Seq<Edge<K, N, E>>) -> bool {
    &&& forall|i: int| from <= i < r.len() ==> universe::<K, N, E>().contains((#[trigger] r[i]).0) && in_adj(r[i], adj) && acc(r[i])
    &&& forall|i: int| from <= i < r.len() ==> (#[trigger] r[i]).0 == top || exists|j: int| i < j < r.len() && r[j].1 == r[i].0
}

// all recorded targets are pairwise distinct (by key)
pub open spec fn distinct_targets<K, N, E>(r: Seq<Edge<K, N, E>>) -> bool {
    forall|i: int, j: int| 0 <= i < j < r.len() ==> (#[trigger] r[i]).1.k() != (#[trigger] r[j]).1.k()
}

pub proof fn lemma_distinct_push<K, N, E>(vis: Set<K>, r: Seq<Edge<K, N, E>>, e: Edge<K, N, E>)
    requires distinct_targets(r), vis_sup(vis, r), !vis.contains(e.1.k())
    ensures distinct_targets(r.push(e))
{
    let r2 = r.push(e);
    assert forall|i: int, j: int| 0 <= i < j < r2.len() implies (#[trigger] r2[i]).1.k() != (#[trigger] r2[j]).1.k() by {
        if j < r.len() { assert(r2[i] == r[i] && r2[j] == r[j]); } else { assert(r2[i] == r[i]); assert(vis.contains(r[i].1.k())); }
    }
}

// tree targets are reachable; a closed visited set contains everything reachable
pub proof fn lemma_covers_reach<K, N, E>(vis: Set<K>, r: Seq<Edge<K, N, E>>, root: Node<K, N, E>, acc: spec_fn(Edge<K, N, E>) -> bool, adj: spec_fn(Node<K, N, E>) -> Seq<Edge<K, N, E>>)
    requires graph_ok(adj), universe::<K, N, E>().contains(root), all_closed(vis, root, acc, adj),
        ext(set![root.k()], Seq::<Edge<K, N, E>>::empty(), vis, r),
        forall|i: int| 0 <= i < r.len() ==> #[trigger] reach(root, r[i].1.k(), acc, adj),
    ensures covers_reach(r, root, acc, adj)
{
    reveal(ext);
    assert forall|k: K| (exists|i: int| 0 <= i < r.len() && (#[trigger] r[i]).1.k() == k) <==> (k != root.k() && #[trigger] reach(root, k, acc, adj)) by {
        if exists|i: int| 0 <= i < r.len() && (#[trigger] r[i]).1.k() == k {
            let i = choose|i: int| 0 <= i < r.len() && (#[trigger] r[i]).1.k() == k;
            assert(reach(root, r[i].1.k(), acc, adj));
            assert(!set![root.k()].contains(r[i].1.k()));
        }
        if k != root.k() && reach(root, k, acc, adj) {
            if !vis.contains(k) { lemma_closed_unreachable(vis, root, acc, adj, k); }
            assert(vis.contains(k));
        }
    }
}

// in a finishing-order list every target is reachable from the root as well
pub proof fn lemma_ptree_reach<K, N, E>(r: Seq<Edge<K, N, E>>, root: Node<K, N, E>, acc: spec_fn(Edge<K, N, E>) -> bool, adj: spec_fn(Node<K, N, E>) -> Seq<Edge<K, N, E>>, i: int)
    requires graph_ok(adj), universe::<K, N, E>().contains(root), ptree(r, root, acc, adj), 0 <= i < r.len()
    ensures reach(root, r[i].1.k(), acc, adj)
    decreases r.len() - i
{
    reveal(ptree);
    if r[i].0 != root {
        let j = choose|j: int| i < j < r.len() && r[j].1 == r[i].0;
        lemma_ptree_reach(r, root, acc, adj, j);
    }
    lemma_reach_step(root, acc, adj, r[i]);
}

pub open spec fn dtargets4<K, N, E>(r: Seq<Edge<K, N, E>>, root: Node<K, N, E>, acc: spec_fn(Edge<K, N, E>) -> bool, adj: spec_fn(Node<K, N, E>) -> Seq<Edge<K, N, E>>) -> bool {
    distinct_targets(r)
}

// postorder step: v was marked visited first (v0 -> v0+{v}), the recursive call extended
// (v0+{v}, r0) to (v2, r2), then the edge into v is recorded
pub proof fn lemma_ext_post_step<K, N, E>(v0: Set<K>, r0: Seq<Edge<K, N, E>>, v2: Set<K>, r2: Seq<Edge<K, N, E>>, e: Edge<K, N, E>)
    requires !v0.contains(e.1.k()), ext(v0.insert(e.1.k()), r0, v2, r2)
    ensures ext(v0, r0, v2, r2.push(e))
{
    reveal(ext);
    let vk = e.1.k();
    let r3 = r2.push(e);
    assert(r3.take(r0.len() as int) =~= r2.take(r0.len() as int));
    assert forall|k: K| v2.contains(k) <==> (v0.contains(k) || exists|i: int| r0.len() <= i < r3.len() && (#[trigger] r3[i]).1.k() == k) by {
        if v2.contains(k) {
            if k == vk { assert(r3[r2.len() as int].1.k() == k); }
            else if !v0.contains(k) {
                let i = choose|i: int| r0.len() <= i < r2.len() && (#[trigger] r2[i]).1.k() == k;
                assert(r3[i] == r2[i]);
            }
        } else {
            if exists|i: int| r0.len() <= i < r3.len() && (#[trigger] r3[i]).1.k() == k {
                let i = choose|i: int| r0.len() <= i < r3.len() && (#[trigger] r3[i]).1.k() == k;
                if i < r2.len() { assert(r3[i] == r2[i]); }
            }
        }
    }
    assert forall|i: int| r0.len() <= i < r3.len() implies !v0.contains((#[trigger] r3[i]).1.k()) by {
        if i < r2.len() { assert(r3[i] == r2[i]); }
    }
}
