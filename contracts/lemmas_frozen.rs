// ===== lemmas_frozen.rs : search vocabulary of the frozen world (DESIGN §4). No gdsl code. =====

pub open spec fn rev<K, N, E>(e: Edge<K, N, E>) -> Edge<K, N, E> { Edge(e.1, e.0, e.2) }

//@if dg,sdg
pub open spec fn adj_out<K, N, E>() -> spec_fn(Node<K, N, E>) -> Seq<Edge<K, N, E>> { |n: Node<K, N, E>| n.outs() }
// adjacency of the edge-reversed graph: a stored edge u->v(e), listed in v's inbound list as
// Edge(u, v, e), is reported as Edge(v, u, e)
pub open spec fn adj_in<K, N, E>() -> spec_fn(Node<K, N, E>) -> Seq<Edge<K, N, E>> {
    |n: Node<K, N, E>| n.ins().map_values(|e: Edge<K, N, E>| rev(e))
}
pub open spec fn adj_of<K, N, E>(t: Transposition) -> spec_fn(Node<K, N, E>) -> Seq<Edge<K, N, E>> {
    match t { Transposition::Outbound => adj_out(), Transposition::Inbound => adj_in() }
}
//@else
pub open spec fn adj_un<K, N, E>() -> spec_fn(Node<K, N, E>) -> Seq<Edge<K, N, E>> { |n: Node<K, N, E>| n.adjs() }
//@endif

pub open spec fn ukeys<K, N, E>() -> Set<K> { universe::<K, N, E>().map(|n: Node<K, N, E>| n.k()) }

// well-formedness of the frozen graph as seen through `adj`
pub open spec fn graph_ok<K, N, E>(adj: spec_fn(Node<K, N, E>) -> Seq<Edge<K, N, E>>) -> bool {
    &&& forall|n: Node<K, N, E>, i: int| universe::<K, N, E>().contains(n) && 0 <= i < adj(n).len() ==> (#[trigger] adj(n)[i]).0 == n
    &&& forall|n: Node<K, N, E>, i: int| universe::<K, N, E>().contains(n) && 0 <= i < adj(n).len() ==> universe::<K, N, E>().contains((#[trigger] adj(n)[i]).1)
    &&& keys_distinct::<K, N, E>()
}
#[verifier::opaque]
pub open spec fn keys_distinct<K, N, E>() -> bool {
    forall|a: Node<K, N, E>, b: Node<K, N, E>| universe::<K, N, E>().contains(a) && universe::<K, N, E>().contains(b) && a.k() == b.k() ==> a == b
}

pub proof fn lemma_keys<K, N, E>(a: Node<K, N, E>, b: Node<K, N, E>)
    requires keys_distinct::<K, N, E>(), universe::<K, N, E>().contains(a), universe::<K, N, E>().contains(b), a.k() == b.k()
    ensures a == b
{
    reveal(keys_distinct);
}

pub open spec fn in_adj<K, N, E>(e: Edge<K, N, E>, adj: spec_fn(Node<K, N, E>) -> Seq<Edge<K, N, E>>) -> bool {
    exists|i: int| 0 <= i < adj(e.0).len() && (#[trigger] adj(e.0)[i]) == e
}

// `r` is an edge tree grown from `root`: existing accepted edges, one per target, each
// starting at the root or at an earlier target
#[verifier::opaque]
pub open spec fn tree<K, N, E>(r: Seq<Edge<K, N, E>>, root: Node<K, N, E>, acc: spec_fn(Edge<K, N, E>) -> bool, adj: spec_fn(Node<K, N, E>) -> Seq<Edge<K, N, E>>) -> bool {
    &&& forall|i: int| 0 <= i < r.len() ==> universe::<K, N, E>().contains((#[trigger] r[i]).0) && in_adj(r[i], adj) && acc(r[i])
    &&& forall|i: int, j: int| 0 <= i < j < r.len() ==> (#[trigger] r[i]).1.k() != (#[trigger] r[j]).1.k()
    &&& forall|i: int| 0 <= i < r.len() ==> (#[trigger] r[i]).0 == root || exists|j: int| 0 <= j < i && r[j].1 == r[i].0
}
pub open spec fn vis_sup<K, N, E>(vis: Set<K>, r: Seq<Edge<K, N, E>>) -> bool {
    forall|i: int| 0 <= i < r.len() ==> vis.contains((#[trigger] r[i]).1.k())
}
pub open spec fn src_ok<K, N, E>(n: Node<K, N, E>, r: Seq<Edge<K, N, E>>, root: Node<K, N, E>) -> bool {
    n == root || exists|j: int| 0 <= j < r.len() && (#[trigger] r[j]).1 == n
}
// (vis1, r1) extends (vis0, r0): r0 is a prefix, the new visited keys are exactly the new
// targets, none of which was visited before
#[verifier::opaque]
pub open spec fn ext<K, N, E>(vis0: Set<K>, r0: Seq<Edge<K, N, E>>, vis1: Set<K>, r1: Seq<Edge<K, N, E>>) -> bool {
    &&& r0.len() <= r1.len()
    &&& r1.take(r0.len() as int) == r0
    &&& forall|k: K| vis1.contains(k) <==> (vis0.contains(k) || exists|i: int| r0.len() <= i < r1.len() && (#[trigger] r1[i]).1.k() == k)
    &&& forall|i: int| r0.len() <= i < r1.len() ==> !vis0.contains((#[trigger] r1[i]).1.k())
}

pub proof fn lemma_tree_empty<K, N, E>(root: Node<K, N, E>, acc: spec_fn(Edge<K, N, E>) -> bool, adj: spec_fn(Node<K, N, E>) -> Seq<Edge<K, N, E>>)
    ensures tree(Seq::<Edge<K, N, E>>::empty(), root, acc, adj), vis_sup(Set::<K>::empty(), Seq::<Edge<K, N, E>>::empty())
{
    reveal(tree);
}

pub proof fn lemma_ext_refl<K, N, E>(vis: Set<K>, r: Seq<Edge<K, N, E>>)
    ensures ext(vis, r, vis, r)
{
    reveal(tree); reveal(ext);    assert(r.take(r.len() as int) =~= r);
}

pub proof fn lemma_ext_push<K, N, E>(vis0: Set<K>, r0: Seq<Edge<K, N, E>>, vis: Set<K>, r: Seq<Edge<K, N, E>>, e: Edge<K, N, E>)
    requires ext(vis0, r0, vis, r), !vis.contains(e.1.k())
    ensures ext(vis0, r0, vis.insert(e.1.k()), r.push(e))
{
    reveal(tree); reveal(ext);    let r2 = r.push(e);
    let vis2 = vis.insert(e.1.k());
    assert(r2.take(r0.len() as int) =~= r.take(r0.len() as int));
    assert forall|k: K| vis2.contains(k) <==> (vis0.contains(k) || exists|i: int| r0.len() <= i < r2.len() && (#[trigger] r2[i]).1.k() == k) by {
        if vis2.contains(k) {
            if k == e.1.k() { assert(r2[r.len() as int].1.k() == k); }
            else if !vis0.contains(k) {
                let i = choose|i: int| r0.len() <= i < r.len() && (#[trigger] r[i]).1.k() == k;
                assert(r2[i] == r[i]);
            }
        } else {
            if exists|i: int| r0.len() <= i < r2.len() && (#[trigger] r2[i]).1.k() == k {
                let i = choose|i: int| r0.len() <= i < r2.len() && (#[trigger] r2[i]).1.k() == k;
                if i < r.len() { assert(r2[i] == r[i]); }
            }
        }
    }
    assert forall|i: int| r0.len() <= i < r2.len() implies !vis0.contains((#[trigger] r2[i]).1.k()) by {
        if i < r.len() { assert(r2[i] == r[i]); }
    }
}

pub proof fn lemma_ext_trans<K, N, E>(vis0: Set<K>, r0: Seq<Edge<K, N, E>>, vis1: Set<K>, r1: Seq<Edge<K, N, E>>, vis2: Set<K>, r2: Seq<Edge<K, N, E>>)
    requires ext(vis0, r0, vis1, r1), ext(vis1, r1, vis2, r2)
    ensures ext(vis0, r0, vis2, r2)
{
    reveal(tree); reveal(ext);    assert(r2.take(r0.len() as int) =~= r2.take(r1.len() as int).take(r0.len() as int));
    assert forall|k: K| vis2.contains(k) <==> (vis0.contains(k) || exists|i: int| r0.len() <= i < r2.len() && (#[trigger] r2[i]).1.k() == k) by {
        if vis2.contains(k) {
            if vis1.contains(k) {
                if !vis0.contains(k) {
                    let i = choose|i: int| r0.len() <= i < r1.len() && (#[trigger] r1[i]).1.k() == k;
                    assert(r2.take(r1.len() as int)[i] == r2[i]);
                }
            }
        } else {
            if exists|i: int| r0.len() <= i < r2.len() && (#[trigger] r2[i]).1.k() == k {
                let i = choose|i: int| r0.len() <= i < r2.len() && (#[trigger] r2[i]).1.k() == k;
                if i < r1.len() { assert(r2.take(r1.len() as int)[i] == r2[i]); assert(r1[i].1.k() == k); }
            }
        }
    }
    assert forall|i: int| r0.len() <= i < r2.len() implies !vis0.contains((#[trigger] r2[i]).1.k()) by {
        if i < r1.len() { assert(r2.take(r1.len() as int)[i] == r2[i]); assert(!vis0.contains(r1[i].1.k())); }
        else { assert(!vis1.contains(r2[i].1.k())); }
    }
}

pub proof fn lemma_tree_push<K, N, E>(r: Seq<Edge<K, N, E>>, root: Node<K, N, E>, acc: spec_fn(Edge<K, N, E>) -> bool, adj: spec_fn(Node<K, N, E>) -> Seq<Edge<K, N, E>>, vis: Set<K>, e: Edge<K, N, E>)
    requires tree(r, root, acc, adj), vis_sup(vis, r), universe::<K, N, E>().contains(e.0), in_adj(e, adj), acc(e), !vis.contains(e.1.k()), src_ok(e.0, r, root),
    ensures tree(r.push(e), root, acc, adj), vis_sup(vis.insert(e.1.k()), r.push(e)),
        forall|n: Node<K, N, E>| src_ok(n, r, root) ==> src_ok(n, r.push(e), root),
        src_ok(e.1, r.push(e), root),
{
    reveal(tree); reveal(ext);    let r2 = r.push(e);
    assert forall|i: int| 0 <= i < r2.len() implies universe::<K, N, E>().contains((#[trigger] r2[i]).0) && in_adj(r2[i], adj) && acc(r2[i]) by {
        if i < r.len() { assert(r2[i] == r[i]); }
    }
    assert forall|i: int, j: int| 0 <= i < j < r2.len() implies (#[trigger] r2[i]).1.k() != (#[trigger] r2[j]).1.k() by {
        if j < r.len() { assert(r2[i] == r[i] && r2[j] == r[j]); } else { assert(r2[i] == r[i]); assert(vis.contains(r[i].1.k())); }
    }
    assert forall|i: int| 0 <= i < r2.len() implies (#[trigger] r2[i]).0 == root || exists|j: int| 0 <= j < i && r2[j].1 == r2[i].0 by {
        if i < r.len() {
            assert(r2[i] == r[i]);
            if r[i].0 != root { let j = choose|j: int| 0 <= j < i && r[j].1 == r[i].0; assert(r2[j] == r[j]); }
        } else {
            if e.0 != root { let j = choose|j: int| 0 <= j < r.len() && (#[trigger] r[j]).1 == e.0; assert(r2[j] == r[j]); }
        }
    }
    assert forall|i: int| 0 <= i < r2.len() implies vis.insert(e.1.k()).contains((#[trigger] r2[i]).1.k()) by {
        if i < r.len() { assert(r2[i] == r[i]); }
    }
    assert forall|n: Node<K, N, E>| src_ok(n, r, root) implies src_ok(n, r2, root) by {
        if n != root { let j = choose|j: int| 0 <= j < r.len() && (#[trigger] r[j]).1 == n; assert(r2[j] == r[j]); }
    }
    assert(r2[r.len() as int].1 == e.1);
}

// ---- closedness (tier 2) ----
pub open spec fn closed_at<K, N, E>(n: Node<K, N, E>, vis: Set<K>, acc: spec_fn(Edge<K, N, E>) -> bool, adj: spec_fn(Node<K, N, E>) -> Seq<Edge<K, N, E>>) -> bool {
    forall|i: int| 0 <= i < adj(n).len() && acc(#[trigger] adj(n)[i]) ==> vis.contains(adj(n)[i].1.k())
}
pub open spec fn closed_upto<K, N, E>(n: Node<K, N, E>, m: int, vis: Set<K>, acc: spec_fn(Edge<K, N, E>) -> bool, adj: spec_fn(Node<K, N, E>) -> Seq<Edge<K, N, E>>) -> bool {
    forall|i: int| 0 <= i < m && i < adj(n).len() && acc(#[trigger] adj(n)[i]) ==> vis.contains(adj(n)[i].1.k())
}
// every node that is visited (or is the root) is pending in `q`, is the node being expanded,
// or has all its accepted edges leading into `vis`
pub open spec fn frontier_ok<K, N, E>(vis: Set<K>, root: Node<K, N, E>, q: Seq<Node<K, N, E>>, cur: Option<Node<K, N, E>>, acc: spec_fn(Edge<K, N, E>) -> bool, adj: spec_fn(Node<K, N, E>) -> Seq<Edge<K, N, E>>) -> bool {
    forall|n: Node<K, N, E>| #[trigger] universe::<K, N, E>().contains(n) && (vis.contains(n.k()) || n == root) ==> q.contains(n) || cur == Some(n) || closed_at(n, vis, acc, adj)
}
pub open spec fn all_closed<K, N, E>(vis: Set<K>, root: Node<K, N, E>, acc: spec_fn(Edge<K, N, E>) -> bool, adj: spec_fn(Node<K, N, E>) -> Seq<Edge<K, N, E>>) -> bool {
    forall|n: Node<K, N, E>| #[trigger] universe::<K, N, E>().contains(n) && (vis.contains(n.k()) || n == root) ==> closed_at(n, vis, acc, adj)
}

pub proof fn lemma_frontier_pop<K, N, E>(vis: Set<K>, root: Node<K, N, E>, q: Seq<Node<K, N, E>>, acc: spec_fn(Edge<K, N, E>) -> bool, adj: spec_fn(Node<K, N, E>) -> Seq<Edge<K, N, E>>)
    requires q.len() > 0, frontier_ok(vis, root, q, None, acc, adj)
    ensures frontier_ok(vis, root, q.drop_first(), Some(q[0]), acc, adj)
{
    assert forall|n: Node<K, N, E>| #[trigger] universe::<K, N, E>().contains(n) && (vis.contains(n.k()) || n == root) implies q.drop_first().contains(n) || Some(q[0]) == Some(n) || closed_at(n, vis, acc, adj) by {
        if q.contains(n) {
            let i = choose|i: int| 0 <= i < q.len() && q[i] == n;
            if i > 0 { assert(q.drop_first()[i - 1] == n); }
        }
    }
}
pub proof fn lemma_frontier_grow<K, N, E>(vis: Set<K>, root: Node<K, N, E>, q: Seq<Node<K, N, E>>, cur: Node<K, N, E>, acc: spec_fn(Edge<K, N, E>) -> bool, adj: spec_fn(Node<K, N, E>) -> Seq<Edge<K, N, E>>, v: Node<K, N, E>)
    requires graph_ok(adj), universe::<K, N, E>().contains(v), frontier_ok(vis, root, q, Some(cur), acc, adj)
    ensures frontier_ok(vis.insert(v.k()), root, q.push(v), Some(cur), acc, adj)
{
    reveal(keys_distinct);
    let vis2 = vis.insert(v.k());
    let q2 = q.push(v);
    assert forall|n: Node<K, N, E>| #[trigger] universe::<K, N, E>().contains(n) && (vis2.contains(n.k()) || n == root) implies q2.contains(n) || Some(cur) == Some(n) || closed_at(n, vis2, acc, adj) by {
        if n.k() == v.k() { assert(n == v); assert(q2[q.len() as int] == v); }
        else {
            if q.contains(n) { let i = choose|i: int| 0 <= i < q.len() && q[i] == n; assert(q2[i] == n); }
        }
    }
}

// ---- paths and reachability (defined without reference to the code) ----
#[verifier::opaque]
pub open spec fn is_path<K, N, E>(p: Seq<Edge<K, N, E>>, a: Node<K, N, E>, acc: spec_fn(Edge<K, N, E>) -> bool, adj: spec_fn(Node<K, N, E>) -> Seq<Edge<K, N, E>>) -> bool {
    &&& p.len() > 0
    &&& p[0].0 == a
    &&& forall|i: int| 0 <= i < p.len() ==> in_adj(#[trigger] p[i], adj) && acc(p[i])
    &&& forall|i: int| 0 <= i < p.len() - 1 ==> (#[trigger] p[i]).1 == p[i + 1].0
}
// some path of one or more accepted edges leads from a to a node with key k
#[verifier::opaque]
pub open spec fn reach<K, N, E>(a: Node<K, N, E>, k: K, acc: spec_fn(Edge<K, N, E>) -> bool, adj: spec_fn(Node<K, N, E>) -> Seq<Edge<K, N, E>>) -> bool {
    exists|p: Seq<Edge<K, N, E>>| is_path(p, a, acc, adj) && p.last().1.k() == k
}

// a closed visited set cannot be left along accepted edges
pub proof fn lemma_closed_path<K, N, E>(vis: Set<K>, root: Node<K, N, E>, acc: spec_fn(Edge<K, N, E>) -> bool, adj: spec_fn(Node<K, N, E>) -> Seq<Edge<K, N, E>>, p: Seq<Edge<K, N, E>>, i: int)
    requires graph_ok(adj), universe::<K, N, E>().contains(root), all_closed(vis, root, acc, adj), is_path(p, root, acc, adj), 0 <= i < p.len()
    ensures vis.contains(p[i].1.k()), universe::<K, N, E>().contains(p[i].1), universe::<K, N, E>().contains(p[i].0)
    decreases i
{
    reveal(is_path); reveal(keys_distinct);
    if i > 0 {
        lemma_closed_path(vis, root, acc, adj, p, i - 1);
        assert(p[i - 1].1 == p[i].0);
    }
    let e = p[i];
    assert(universe::<K, N, E>().contains(e.0));
    assert(in_adj(e, adj));
    let j = choose|j: int| 0 <= j < adj(e.0).len() && (#[trigger] adj(e.0)[j]) == e;
    assert(closed_at(e.0, vis, acc, adj));
    assert(acc(adj(e.0)[j]));
    assert(universe::<K, N, E>().contains(adj(e.0)[j].1));
}

pub proof fn lemma_closed_unreachable<K, N, E>(vis: Set<K>, root: Node<K, N, E>, acc: spec_fn(Edge<K, N, E>) -> bool, adj: spec_fn(Node<K, N, E>) -> Seq<Edge<K, N, E>>, k: K)
    requires graph_ok(adj), universe::<K, N, E>().contains(root), all_closed(vis, root, acc, adj), !vis.contains(k)
    ensures !reach(root, k, acc, adj)
{
    reveal(is_path);
    reveal(reach);
    if reach(root, k, acc, adj) {
        let p = choose|p: Seq<Edge<K, N, E>>| is_path(p, root, acc, adj) && p.last().1.k() == k;
        lemma_closed_path(vis, root, acc, adj, p, p.len() - 1);
    }
}

// ---- termination measure: number of universe keys not yet visited ----
pub open spec fn unvisited<K, N, E>(vis: Set<K>) -> nat { ukeys::<K, N, E>().difference(vis).len() }

pub proof fn lemma_unvisited_insert<K, N, E>(vis: Set<K>, v: Node<K, N, E>)
    requires universe::<K, N, E>().contains(v), !vis.contains(v.k())
    ensures unvisited::<K, N, E>(vis.insert(v.k())) < unvisited::<K, N, E>(vis)
{
    let uk = ukeys::<K, N, E>();
    assert(uk.contains(v.k()));
    let d = uk.difference(vis);
    assert(d.contains(v.k()));
    assert(uk.difference(vis.insert(v.k())) =~= d.remove(v.k()));
    vstd::set_lib::lemma_len_subset(d, uk);
}

// ---- reachability bookkeeping for the searches that keep no edge tree ----
pub proof fn lemma_path_in_uni<K, N, E>(a: Node<K, N, E>, acc: spec_fn(Edge<K, N, E>) -> bool, adj: spec_fn(Node<K, N, E>) -> Seq<Edge<K, N, E>>, p: Seq<Edge<K, N, E>>, i: int)
    requires graph_ok(adj), universe::<K, N, E>().contains(a), is_path(p, a, acc, adj), 0 <= i < p.len()
    ensures universe::<K, N, E>().contains(p[i].0), universe::<K, N, E>().contains(p[i].1)
    decreases i
{
    reveal(is_path); reveal(keys_distinct);
    if i > 0 {
        lemma_path_in_uni(a, acc, adj, p, i - 1);
        assert(p[i - 1].1 == p[i].0);
    }
    let e = p[i];
    let j = choose|j: int| 0 <= j < adj(e.0).len() && (#[trigger] adj(e.0)[j]) == e;
    assert(universe::<K, N, E>().contains(adj(e.0)[j].1));
}

// the node itself or something reachable from it
pub open spec fn reach0<K, N, E>(a: Node<K, N, E>, k: K, acc: spec_fn(Edge<K, N, E>) -> bool, adj: spec_fn(Node<K, N, E>) -> Seq<Edge<K, N, E>>) -> bool {
    k == a.k() || reach(a, k, acc, adj)
}

pub proof fn lemma_reach_step<K, N, E>(root: Node<K, N, E>, acc: spec_fn(Edge<K, N, E>) -> bool, adj: spec_fn(Node<K, N, E>) -> Seq<Edge<K, N, E>>, e: Edge<K, N, E>)
    requires graph_ok(adj), universe::<K, N, E>().contains(root), universe::<K, N, E>().contains(e.0),
        reach0(root, e.0.k(), acc, adj), in_adj(e, adj), acc(e),
    ensures reach(root, e.1.k(), acc, adj)
{
    reveal(is_path); reveal(keys_distinct);
    reveal(reach);
    if e.0.k() == root.k() {
        assert(e.0 == root);
        let p = seq![e];
        assert(is_path(p, root, acc, adj));
        assert(p.last().1.k() == e.1.k());
    } else {
        let p = choose|p: Seq<Edge<K, N, E>>| is_path(p, root, acc, adj) && p.last().1.k() == e.0.k();
        lemma_path_in_uni(root, acc, adj, p, p.len() - 1);
        assert(p.last().1 == e.0);
        let p2 = p.push(e);
        assert forall|i: int| 0 <= i < p2.len() implies in_adj(#[trigger] p2[i], adj) && acc(p2[i]) by {
            if i < p.len() { assert(p2[i] == p[i]); }
        }
        assert forall|i: int| 0 <= i < p2.len() - 1 implies (#[trigger] p2[i]).1 == p2[i + 1].0 by {
            assert(p2[i] == p[i]);
            if i + 1 < p.len() { assert(p2[i + 1] == p[i + 1]); }
        }
        assert(p2[0] == p[0]);
        assert(is_path(p2, root, acc, adj));
        assert(p2.last().1.k() == e.1.k());
    }
}

// a path proves reachability of its end
pub proof fn lemma_path_reach<K, N, E>(root: Node<K, N, E>, acc: spec_fn(Edge<K, N, E>) -> bool, adj: spec_fn(Node<K, N, E>) -> Seq<Edge<K, N, E>>, p: Seq<Edge<K, N, E>>)
    requires is_path(p, root, acc, adj)
    ensures reach(root, p.last().1.k(), acc, adj)
{
    reveal(is_path); reveal(keys_distinct);
    reveal(reach);
}

pub proof fn lemma_unvisited_mono<K, N, E>(a: Set<K>, b: Set<K>)
    requires forall|k: K| a.contains(k) ==> b.contains(k)
    ensures unvisited::<K, N, E>(b) <= unvisited::<K, N, E>(a)
{
    let uk = ukeys::<K, N, E>();
    assert(uk.difference(b).subset_of(uk.difference(a)));
    vstd::set_lib::lemma_len_subset(uk.difference(b), uk.difference(a));
}

// nodes that became visited between vis0 and vis1 are closed (DFS recursion postcondition)
pub open spec fn new_closed<K, N, E>(vis0: Set<K>, vis1: Set<K>, acc: spec_fn(Edge<K, N, E>) -> bool, adj: spec_fn(Node<K, N, E>) -> Seq<Edge<K, N, E>>) -> bool {
    forall|u: Node<K, N, E>| #[trigger] universe::<K, N, E>().contains(u) && vis1.contains(u.k()) && !vis0.contains(u.k()) ==> closed_at(u, vis1, acc, adj)
}

// ---- frontier with an arbitrary "pending" predicate (priority queue) ----
pub open spec fn frontier_p<K, N, E>(vis: Set<K>, root: Node<K, N, E>, pend: spec_fn(Node<K, N, E>) -> bool, cur: Option<Node<K, N, E>>, acc: spec_fn(Edge<K, N, E>) -> bool, adj: spec_fn(Node<K, N, E>) -> Seq<Edge<K, N, E>>) -> bool {
    forall|n: Node<K, N, E>| #[trigger] universe::<K, N, E>().contains(n) && (vis.contains(n.k()) || n == root) ==> pend(n) || cur == Some(n) || closed_at(n, vis, acc, adj)
}
pub proof fn lemma_frontier_p_pop<K, N, E>(vis: Set<K>, root: Node<K, N, E>, pend0: spec_fn(Node<K, N, E>) -> bool, pend1: spec_fn(Node<K, N, E>) -> bool, x: Node<K, N, E>, acc: spec_fn(Edge<K, N, E>) -> bool, adj: spec_fn(Node<K, N, E>) -> Seq<Edge<K, N, E>>)
    requires frontier_p(vis, root, pend0, None, acc, adj), forall|n: Node<K, N, E>| #[trigger] pend0(n) ==> pend1(n) || n == x
    ensures frontier_p(vis, root, pend1, Some(x), acc, adj)
{
    assert forall|n: Node<K, N, E>| #[trigger] universe::<K, N, E>().contains(n) && (vis.contains(n.k()) || n == root) implies pend1(n) || Some(x) == Some(n) || closed_at(n, vis, acc, adj) by {
        if pend0(n) {}
    }
}
pub proof fn lemma_frontier_p_grow<K, N, E>(vis: Set<K>, root: Node<K, N, E>, pend0: spec_fn(Node<K, N, E>) -> bool, pend1: spec_fn(Node<K, N, E>) -> bool, cur: Node<K, N, E>, acc: spec_fn(Edge<K, N, E>) -> bool, adj: spec_fn(Node<K, N, E>) -> Seq<Edge<K, N, E>>, v: Node<K, N, E>)
    requires graph_ok(adj), universe::<K, N, E>().contains(v), frontier_p(vis, root, pend0, Some(cur), acc, adj),
        forall|n: Node<K, N, E>| #[trigger] pend0(n) ==> pend1(n), pend1(v)
    ensures frontier_p(vis.insert(v.k()), root, pend1, Some(cur), acc, adj)
{
    reveal(keys_distinct);
    let vis2 = vis.insert(v.k());
    assert forall|n: Node<K, N, E>| #[trigger] universe::<K, N, E>().contains(n) && (vis2.contains(n.k()) || n == root) implies pend1(n) || Some(cur) == Some(n) || closed_at(n, vis2, acc, adj) by {
        if n.k() == v.k() { assert(n == v); }
        else { if pend0(n) {} }
    }
}

// the frontier predicate holds for a heap that contains (at least) the root, when nothing
// but the root is visited
pub proof fn lemma_pfs_start<K, N, E>(vis: Set<K>, root: Node<K, N, E>, acc: spec_fn(Edge<K, N, E>) -> bool, adj: spec_fn(Node<K, N, E>) -> Seq<Edge<K, N, E>>)
    requires keys_distinct::<K, N, E>(), universe::<K, N, E>().contains(root), forall|k: K| vis.contains(k) ==> k == root.k()
    ensures forall|pend: spec_fn(Node<K, N, E>) -> bool| pend(root) ==> #[trigger] frontier_p(vis, root, pend, None, acc, adj)
{
    reveal(keys_distinct);
    assert forall|pend: spec_fn(Node<K, N, E>) -> bool| pend(root) implies #[trigger] frontier_p(vis, root, pend, None, acc, adj) by {
        assert forall|n: Node<K, N, E>| #[trigger] universe::<K, N, E>().contains(n) && (vis.contains(n.k()) || n == root) implies pend(n) || None::<Node<K, N, E>> == Some(n) || closed_at(n, vis, acc, adj) by {
            assert(n == root);
        }
    }
}

// every target of a search tree is reachable from the root
pub proof fn lemma_tree_reach<K, N, E>(r: Seq<Edge<K, N, E>>, root: Node<K, N, E>, acc: spec_fn(Edge<K, N, E>) -> bool, adj: spec_fn(Node<K, N, E>) -> Seq<Edge<K, N, E>>, i: int)
    requires graph_ok(adj), universe::<K, N, E>().contains(root), tree(r, root, acc, adj), 0 <= i < r.len()
    ensures reach(root, r[i].1.k(), acc, adj)
    decreases i
{
    reveal(tree);
    if r[i].0 != root {
        let j = choose|j: int| 0 <= j < i && r[j].1 == r[i].0;
        lemma_tree_reach(r, root, acc, adj, j);
    }
    lemma_reach_step(root, acc, adj, r[i]);
}

// ---- orderings (C10) ----
// the targets of r are exactly the keys reachable from the root (other than the root's own key)
pub open spec fn covers_reach<K, N, E>(r: Seq<Edge<K, N, E>>, root: Node<K, N, E>, acc: spec_fn(Edge<K, N, E>) -> bool, adj: spec_fn(Node<K, N, E>) -> Seq<Edge<K, N, E>>) -> bool {
    // every target is reachable and is not the root ...
    &&& forall|i: int| 0 <= i < r.len() ==> (#[trigger] r[i]).1.k() != root.k() && reach(root, r[i].1.k(), acc, adj)
    // ... and everything reachable (other than the root) is a target
    &&& forall|k: K| k != root.k() && #[trigger] reach(root, k, acc, adj) ==> exists|i: int| 0 <= i < r.len() && (#[trigger] r[i]).1.k() == k
}

// finishing-order edge list: existing accepted edges, one per target, each starting at the root
// or at a target that is recorded LATER (a node is finished after all its tree children)
#[verifier::opaque]
pub open spec fn ptree<K, N, E>(r: Seq<Edge<K, N, E>>, root: Node<K, N, E>, acc: spec_fn(Edge<K, N, E>) -> bool, adj: spec_fn(Node<K, N, E>) -> Seq<Edge<K, N, E>>) -> bool {
    &&& forall|i: int| 0 <= i < r.len() ==> universe::<K, N, E>().contains((#[trigger] r[i]).0) && in_adj(r[i], adj) && acc(r[i])
    &&& forall|i: int, j: int| 0 <= i < j < r.len() ==> (#[trigger] r[i]).1.k() != (#[trigger] r[j]).1.k()
    &&& forall|i: int| 0 <= i < r.len() ==> (#[trigger] r[i]).0 == root || exists|j: int| i < j < r.len() && r[j].1 == r[i].0
}

// the edges recorded from index `from` on, during the expansion of `top`
pub open spec fn pedges<K, N, E>(r: Seq<Edge<K, N, E>>, from: int, top: Node<K, N, E>, acc: spec_fn(Edge<K, N, E>) -> bool, adj: spec_fn(Node<K, N, E>) -> Seq<Edge<K, N, E>>) -> bool {
    &&& forall|i: int| from <= i < r.len() ==> universe::<K, N, E>().contains((#[trigger] r[i]).0) && in_adj(r[i], adj) && acc(r[i])
    &&& forall|i: int| from <= i < r.len() ==> (#[trigger] r[i]).0 == top || exists|j: int| i < j < r.len() && r[j].1 == r[i].0
}

// all recorded targets are pairwise distinct (by key)
pub open spec fn distinct_targets<K, N, E>(r: Seq<Edge<K, N, E>>) -> bool {
    forall|i: int, j: int| 0 <= i < j < r.len() ==> (#[trigger] r[i]).1.k() != (#[trigger] r[j]).1.k()
}

pub proof fn lemma_distinct_push<K, N, E>(vis: Set<K>, r: Seq<Edge<K, N, E>>, e: Edge<K, N, E>)
    requires distinct_targets(r), vis_sup(vis, r), !vis.contains(e.1.k())
    ensures distinct_targets(r.push(e))
{
    let r2 = r.push(e);
    assert forall|i: int, j: int| 0 <= i < j < r2.len() implies (#[trigger] r2[i]).1.k() != (#[trigger] r2[j]).1.k() by {
        if j < r.len() { assert(r2[i] == r[i] && r2[j] == r[j]); } else { assert(r2[i] == r[i]); assert(vis.contains(r[i].1.k())); }
    }
}

// tree targets are reachable; a closed visited set contains everything reachable
pub proof fn lemma_covers_reach<K, N, E>(vis: Set<K>, r: Seq<Edge<K, N, E>>, root: Node<K, N, E>, acc: spec_fn(Edge<K, N, E>) -> bool, adj: spec_fn(Node<K, N, E>) -> Seq<Edge<K, N, E>>)
    requires graph_ok(adj), universe::<K, N, E>().contains(root), all_closed(vis, root, acc, adj),
        ext(set![root.k()], Seq::<Edge<K, N, E>>::empty(), vis, r),
        forall|i: int| 0 <= i < r.len() ==> #[trigger] reach(root, r[i].1.k(), acc, adj),
    ensures covers_reach(r, root, acc, adj)
{
    reveal(ext);
    assert forall|i: int| 0 <= i < r.len() implies (#[trigger] r[i]).1.k() != root.k() && reach(root, r[i].1.k(), acc, adj) by {
        assert(reach(root, r[i].1.k(), acc, adj));
        assert(!set![root.k()].contains(r[i].1.k()));
    }
    assert forall|k: K| k != root.k() && #[trigger] reach(root, k, acc, adj) implies exists|i: int| 0 <= i < r.len() && (#[trigger] r[i]).1.k() == k by {
        if !vis.contains(k) { lemma_closed_unreachable(vis, root, acc, adj, k); }
        assert(vis.contains(k));
    }
}

// in a finishing-order list every target is reachable from the root as well
pub proof fn lemma_ptree_reach<K, N, E>(r: Seq<Edge<K, N, E>>, root: Node<K, N, E>, acc: spec_fn(Edge<K, N, E>) -> bool, adj: spec_fn(Node<K, N, E>) -> Seq<Edge<K, N, E>>, i: int)
    requires graph_ok(adj), universe::<K, N, E>().contains(root), ptree(r, root, acc, adj), 0 <= i < r.len()
    ensures reach(root, r[i].1.k(), acc, adj)
    decreases r.len() - i
{
    reveal(ptree);
    if r[i].0 != root {
        let j = choose|j: int| i < j < r.len() && r[j].1 == r[i].0;
        lemma_ptree_reach(r, root, acc, adj, j);
    }
    lemma_reach_step(root, acc, adj, r[i]);
}

pub open spec fn dtargets4<K, N, E>(r: Seq<Edge<K, N, E>>, root: Node<K, N, E>, acc: spec_fn(Edge<K, N, E>) -> bool, adj: spec_fn(Node<K, N, E>) -> Seq<Edge<K, N, E>>) -> bool {
    distinct_targets(r)
}

// postorder step: v was marked visited first (v0 -> v0+{v}), the recursive call extended
// (v0+{v}, r0) to (v2, r2), then the edge into v is recorded
pub proof fn lemma_ext_post_step<K, N, E>(v0: Set<K>, r0: Seq<Edge<K, N, E>>, v2: Set<K>, r2: Seq<Edge<K, N, E>>, e: Edge<K, N, E>)
    requires !v0.contains(e.1.k()), ext(v0.insert(e.1.k()), r0, v2, r2)
    ensures ext(v0, r0, v2, r2.push(e))
{
    reveal(ext);
    let vk = e.1.k();
    let r3 = r2.push(e);
    assert(r3.take(r0.len() as int) =~= r2.take(r0.len() as int));
    assert forall|k: K| v2.contains(k) <==> (v0.contains(k) || exists|i: int| r0.len() <= i < r3.len() && (#[trigger] r3[i]).1.k() == k) by {
        if v2.contains(k) {
            if k == vk { assert(r3[r2.len() as int].1.k() == k); }
            else if !v0.contains(k) {
                let i = choose|i: int| r0.len() <= i < r2.len() && (#[trigger] r2[i]).1.k() == k;
                assert(r3[i] == r2[i]);
            }
        } else {
            if exists|i: int| r0.len() <= i < r3.len() && (#[trigger] r3[i]).1.k() == k {
                let i = choose|i: int| r0.len() <= i < r3.len() && (#[trigger] r3[i]).1.k() == k;
                if i < r2.len() { assert(r3[i] == r2[i]); }
            }
        }
    }
    assert forall|i: int| r0.len() <= i < r3.len() implies !v0.contains((#[trigger] r3[i]).1.k()) by {
        if i < r2.len() { assert(r3[i] == r2[i]); }
    }
}

// ---- the callback log (C07) ----
pub open spec fn tgts<K, N, E>(r: Seq<Edge<K, N, E>>) -> Seq<Node<K, N, E>> { r.map_values(|e: Edge<K, N, E>| e.1) }

// all edges leaving the listed nodes, as a multiset (a node listed twice counts twice)
pub open spec fn nodes_ms<K, N, E>(ns: Seq<Node<K, N, E>>, adj: spec_fn(Node<K, N, E>) -> Seq<Edge<K, N, E>>) -> Multiset<Edge<K, N, E>>
    decreases ns.len()
{
    if ns.len() == 0 { Multiset::empty() } else { nodes_ms(ns.drop_last(), adj).add(adj(ns.last()).to_multiset()) }
}

pub proof fn lemma_nodes_ms_push<K, N, E>(ns: Seq<Node<K, N, E>>, n: Node<K, N, E>, adj: spec_fn(Node<K, N, E>) -> Seq<Edge<K, N, E>>)
    ensures nodes_ms(ns.push(n), adj) == nodes_ms(ns, adj).add(adj(n).to_multiset())
{
    assert(ns.push(n).drop_last() =~= ns);
    assert(ns.push(n).last() == n);
}

pub proof fn lemma_nodes_ms_concat<K, N, E>(a: Seq<Node<K, N, E>>, b: Seq<Node<K, N, E>>, adj: spec_fn(Node<K, N, E>) -> Seq<Edge<K, N, E>>)
    ensures nodes_ms(a + b, adj) == nodes_ms(a, adj).add(nodes_ms(b, adj))
    decreases b.len()
{
    if b.len() == 0 {
        assert(a + b =~= a);
        assert(nodes_ms(a, adj).add(Multiset::<Edge<K, N, E>>::empty()) =~= nodes_ms(a, adj));
    } else {
        assert((a + b).drop_last() =~= a + b.drop_last());
        assert((a + b).last() == b.last());
        lemma_nodes_ms_concat(a, b.drop_last(), adj);
        assert(nodes_ms(a, adj).add(nodes_ms(b.drop_last(), adj)).add(adj(b.last()).to_multiset())
            =~= nodes_ms(a, adj).add(nodes_ms(b.drop_last(), adj).add(adj(b.last()).to_multiset())));
    }
}

pub proof fn lemma_take_ms_step<T>(s: Seq<T>, i: int)
    requires 0 <= i < s.len()
    ensures s.take(i + 1).to_multiset() == s.take(i).to_multiset().insert(s[i])
{
    broadcast use vstd::seq_lib::group_to_multiset_ensures;
    assert(s.take(i + 1) =~= s.take(i).push(s[i]));
}

pub proof fn lemma_log_push<T>(log: Seq<T>, x: T)
    ensures log.push(x).to_multiset() == log.to_multiset().insert(x)
{
    broadcast use vstd::seq_lib::group_to_multiset_ensures;
}

// C07, first sentence: between log0 and log1 the closure was called exactly once for every edge leaving a
// node that is the root or reachable from it (through accepted edges), and for no other edge
pub open spec fn calls_exactly<K, N, E>(log0: Seq<Edge<K, N, E>>, log1: Seq<Edge<K, N, E>>, root: Node<K, N, E>, acc: spec_fn(Edge<K, N, E>) -> bool, adj: spec_fn(Node<K, N, E>) -> Seq<Edge<K, N, E>>) -> bool {
    exists|exp: Seq<Node<K, N, E>>| expands_exactly(exp, root, acc, adj) && log1.to_multiset() == log0.to_multiset().add(nodes_ms(exp, adj))
}
// every node that is the root or reachable from it occurs exactly once in exp, no other node occurs
pub open spec fn expands_exactly<K, N, E>(exp: Seq<Node<K, N, E>>, root: Node<K, N, E>, acc: spec_fn(Edge<K, N, E>) -> bool, adj: spec_fn(Node<K, N, E>) -> Seq<Edge<K, N, E>>) -> bool {
    forall|n: Node<K, N, E>| #[trigger] exp.to_multiset().count(n) == (if universe::<K, N, E>().contains(n) && reach0(root, n.k(), acc, adj) { 1nat } else { 0nat })
}
pub proof fn lemma_reachable_exactly<K, N, E>(exp: Seq<Node<K, N, E>>, root: Node<K, N, E>, acc: spec_fn(Edge<K, N, E>) -> bool, adj: spec_fn(Node<K, N, E>) -> Seq<Edge<K, N, E>>)
    requires expands_reachable(exp, root, acc, adj)
    ensures expands_exactly(exp, root, acc, adj)
{
    broadcast use vstd::seq_lib::group_to_multiset_ensures;
    exp.lemma_multiset_has_no_duplicates();
    assert forall|n: Node<K, N, E>| #[trigger] exp.to_multiset().count(n) == (if universe::<K, N, E>().contains(n) && reach0(root, n.k(), acc, adj) { 1nat } else { 0nat }) by {
        exp.to_multiset_ensures();
        assert(exp.contains(n) <==> exp.to_multiset().count(n) > 0);
        assert(exp.contains(n) <==> (universe::<K, N, E>().contains(n) && reach0(root, n.k(), acc, adj)));
        if exp.contains(n) { assert(exp.to_multiset().contains(n)); assert(exp.to_multiset().count(n) == 1); } else { assert(exp.to_multiset().count(n) == 0); }
    }
}
// the statement depends on the multiset of expanded nodes only
pub proof fn lemma_exactly_perm<K, N, E>(a: Seq<Node<K, N, E>>, b: Seq<Node<K, N, E>>, root: Node<K, N, E>, acc: spec_fn(Edge<K, N, E>) -> bool, adj: spec_fn(Node<K, N, E>) -> Seq<Edge<K, N, E>>)
    requires expands_exactly(a, root, acc, adj), forall|n: Node<K, N, E>| #[trigger] b.to_multiset().count(n) == a.to_multiset().count(n)
    ensures expands_exactly(b, root, acc, adj)
{
    assert forall|n: Node<K, N, E>| #[trigger] b.to_multiset().count(n) == (if universe::<K, N, E>().contains(n) && reach0(root, n.k(), acc, adj) { 1nat } else { 0nat }) by {
        assert(b.to_multiset().count(n) == a.to_multiset().count(n));
    }
}
pub open spec fn expands_reachable<K, N, E>(exp: Seq<Node<K, N, E>>, root: Node<K, N, E>, acc: spec_fn(Edge<K, N, E>) -> bool, adj: spec_fn(Node<K, N, E>) -> Seq<Edge<K, N, E>>) -> bool {
    &&& exp.no_duplicates()
    &&& forall|n: Node<K, N, E>| #[trigger] exp.contains(n) ==> universe::<K, N, E>().contains(n) && reach0(root, n.k(), acc, adj)
    &&& forall|n: Node<K, N, E>| #[trigger] universe::<K, N, E>().contains(n) && reach0(root, n.k(), acc, adj) ==> exp.contains(n)
}

// the root followed by the targets of a complete search tree is such a list
pub proof fn lemma_expands_tree<K, N, E>(r: Seq<Edge<K, N, E>>, root: Node<K, N, E>, acc: spec_fn(Edge<K, N, E>) -> bool, adj: spec_fn(Node<K, N, E>) -> Seq<Edge<K, N, E>>)
    requires graph_ok(adj), universe::<K, N, E>().contains(root), covers_reach(r, root, acc, adj), distinct_targets(r),
        forall|i: int| 0 <= i < r.len() ==> universe::<K, N, E>().contains((#[trigger] r[i]).1),
    ensures expands_reachable(seq![root] + tgts(r), root, acc, adj), expands_exactly(seq![root] + tgts(r), root, acc, adj)
{
    lemma_expands_tree0(r, root, acc, adj);
    lemma_reachable_exactly(seq![root] + tgts(r), root, acc, adj);
}
pub proof fn lemma_expands_tree0<K, N, E>(r: Seq<Edge<K, N, E>>, root: Node<K, N, E>, acc: spec_fn(Edge<K, N, E>) -> bool, adj: spec_fn(Node<K, N, E>) -> Seq<Edge<K, N, E>>)
    requires graph_ok(adj), universe::<K, N, E>().contains(root), covers_reach(r, root, acc, adj), distinct_targets(r),
        forall|i: int| 0 <= i < r.len() ==> universe::<K, N, E>().contains((#[trigger] r[i]).1),
    ensures expands_reachable(seq![root] + tgts(r), root, acc, adj)
{
    let exp = seq![root] + tgts(r);
    assert forall|i: int, j: int| 0 <= i < exp.len() && 0 <= j < exp.len() && i != j implies exp[i] != exp[j] by {
        if i > 0 && j > 0 {
            assert(exp[i] == r[i - 1].1 && exp[j] == r[j - 1].1);
            if i < j { assert(r[i - 1].1.k() != r[j - 1].1.k()); } else { assert(r[j - 1].1.k() != r[i - 1].1.k()); }
        } else {
            let m = if i > 0 { i } else { j };
            assert(exp[m] == r[m - 1].1);
            assert(r[m - 1].1.k() != root.k());
        }
    }
    assert forall|n: Node<K, N, E>| (#[trigger] exp.contains(n) ==> universe::<K, N, E>().contains(n) && reach0(root, n.k(), acc, adj))
        && (#[trigger] universe::<K, N, E>().contains(n) && reach0(root, n.k(), acc, adj) ==> exp.contains(n)) by {
        if exp.contains(n) {
            let i = choose|i: int| 0 <= i < exp.len() && exp[i] == n;
            if i > 0 {
                assert(n == r[i - 1].1);
                assert(r[i - 1].1.k() != root.k() && reach(root, r[i - 1].1.k(), acc, adj));
            }
        }
        if universe::<K, N, E>().contains(n) && reach0(root, n.k(), acc, adj) {
            if n.k() == root.k() { lemma_keys(n, root); assert(exp[0] == n); }
            else {
                assert(reach(root, n.k(), acc, adj));
                let x = choose|x: int| 0 <= x < r.len() && (#[trigger] r[x]).1.k() == n.k();
                lemma_keys(n, r[x].1);
                assert(exp[x + 1] == n);
            }
        }
    }
}

pub proof fn lemma_take0_ms<T>(s: Seq<T>)
    ensures s.take(0).to_multiset() == Multiset::<T>::empty()
{
    broadcast use vstd::seq_lib::group_to_multiset_ensures;
    assert(s.take(0) =~= Seq::<T>::empty());
    assert(Seq::<T>::empty().to_multiset() =~= Multiset::<T>::empty());
}

// bookkeeping of the searches that record no edges: `disc` lists the newly discovered nodes in order
pub open spec fn disc_ok<K, N, E>(disc: Seq<Node<K, N, E>>, vis0: Set<K>, vis: Set<K>, root: Node<K, N, E>, acc: spec_fn(Edge<K, N, E>) -> bool, adj: spec_fn(Node<K, N, E>) -> Seq<Edge<K, N, E>>) -> bool {
    &&& forall|k: K| vis.contains(k) <==> (vis0.contains(k) || exists|i: int| 0 <= i < disc.len() && (#[trigger] disc[i]).k() == k)
    &&& forall|i: int, j: int| 0 <= i < j < disc.len() ==> (#[trigger] disc[i]).k() != (#[trigger] disc[j]).k()
    &&& forall|i: int| 0 <= i < disc.len() ==> !vis0.contains((#[trigger] disc[i]).k()) && universe::<K, N, E>().contains(disc[i]) && reach0(root, disc[i].k(), acc, adj)
}

pub proof fn lemma_disc_push<K, N, E>(disc: Seq<Node<K, N, E>>, vis0: Set<K>, vis: Set<K>, root: Node<K, N, E>, acc: spec_fn(Edge<K, N, E>) -> bool, adj: spec_fn(Node<K, N, E>) -> Seq<Edge<K, N, E>>, v: Node<K, N, E>)
    requires disc_ok(disc, vis0, vis, root, acc, adj), !vis.contains(v.k()), universe::<K, N, E>().contains(v), reach0(root, v.k(), acc, adj)
    ensures disc_ok(disc.push(v), vis0, vis.insert(v.k()), root, acc, adj)
{
    let d2 = disc.push(v);
    let vis2 = vis.insert(v.k());
    assert forall|k: K| vis2.contains(k) <==> (vis0.contains(k) || exists|i: int| 0 <= i < d2.len() && (#[trigger] d2[i]).k() == k) by {
        if vis2.contains(k) {
            if k == v.k() { assert(d2[disc.len() as int].k() == k); }
            else if !vis0.contains(k) { let i = choose|i: int| 0 <= i < disc.len() && (#[trigger] disc[i]).k() == k; assert(d2[i] == disc[i]); }
        } else if exists|i: int| 0 <= i < d2.len() && (#[trigger] d2[i]).k() == k {
            let i = choose|i: int| 0 <= i < d2.len() && (#[trigger] d2[i]).k() == k;
            if i < disc.len() { assert(d2[i] == disc[i]); }
        }
    }
    assert forall|i: int, j: int| 0 <= i < j < d2.len() implies (#[trigger] d2[i]).k() != (#[trigger] d2[j]).k() by {
        if j < disc.len() { assert(d2[i] == disc[i] && d2[j] == disc[j]); } else { assert(d2[i] == disc[i]); assert(vis.contains(disc[i].k())); }
    }
    assert forall|i: int| 0 <= i < d2.len() implies !vis0.contains((#[trigger] d2[i]).k()) && universe::<K, N, E>().contains(d2[i]) && reach0(root, d2[i].k(), acc, adj) by {
        if i < disc.len() { assert(d2[i] == disc[i]); }
    }
}

// a completed search from [root] with only the root visited expanded exactly the reachable nodes
pub proof fn lemma_expands_disc<K, N, E>(disc: Seq<Node<K, N, E>>, vis: Set<K>, root: Node<K, N, E>, acc: spec_fn(Edge<K, N, E>) -> bool, adj: spec_fn(Node<K, N, E>) -> Seq<Edge<K, N, E>>)
    requires graph_ok(adj), universe::<K, N, E>().contains(root), disc_ok(disc, set![root.k()], vis, root, acc, adj), all_closed(vis, root, acc, adj)
    ensures expands_reachable(seq![root] + disc, root, acc, adj), expands_exactly(seq![root] + disc, root, acc, adj)
{
    lemma_expands_disc0(disc, vis, root, acc, adj);
    lemma_reachable_exactly(seq![root] + disc, root, acc, adj);
}
pub proof fn lemma_expands_disc0<K, N, E>(disc: Seq<Node<K, N, E>>, vis: Set<K>, root: Node<K, N, E>, acc: spec_fn(Edge<K, N, E>) -> bool, adj: spec_fn(Node<K, N, E>) -> Seq<Edge<K, N, E>>)
    requires graph_ok(adj), universe::<K, N, E>().contains(root), disc_ok(disc, set![root.k()], vis, root, acc, adj), all_closed(vis, root, acc, adj)
    ensures expands_reachable(seq![root] + disc, root, acc, adj)
{
    let exp = seq![root] + disc;
    assert forall|i: int, j: int| 0 <= i < exp.len() && 0 <= j < exp.len() && i != j implies exp[i] != exp[j] by {
        if i > 0 && j > 0 {
            assert(exp[i] == disc[i - 1] && exp[j] == disc[j - 1]);
            if i < j { assert(disc[i - 1].k() != disc[j - 1].k()); } else { assert(disc[j - 1].k() != disc[i - 1].k()); }
        } else {
            let m = if i > 0 { i } else { j };
            assert(exp[m] == disc[m - 1]);
            assert(!set![root.k()].contains(disc[m - 1].k()));
        }
    }
    assert forall|n: Node<K, N, E>| (#[trigger] exp.contains(n) ==> universe::<K, N, E>().contains(n) && reach0(root, n.k(), acc, adj))
        && (#[trigger] universe::<K, N, E>().contains(n) && reach0(root, n.k(), acc, adj) ==> exp.contains(n)) by {
        if exp.contains(n) {
            let i = choose|i: int| 0 <= i < exp.len() && exp[i] == n;
            if i > 0 { assert(n == disc[i - 1]); }
        }
        if universe::<K, N, E>().contains(n) && reach0(root, n.k(), acc, adj) {
            if n.k() == root.k() { lemma_keys(n, root); assert(exp[0] == n); }
            else {
                if !vis.contains(n.k()) { lemma_closed_unreachable(vis, root, acc, adj, n.k()); }
                let x = choose|x: int| 0 <= x < disc.len() && (#[trigger] disc[x]).k() == n.k();
                lemma_keys(n, disc[x]);
                assert(exp[x + 1] == n);
            }
        }
    }
}

pub proof fn lemma_nodes_ms_single<K, N, E>(n: Node<K, N, E>, adj: spec_fn(Node<K, N, E>) -> Seq<Edge<K, N, E>>)
    ensures nodes_ms(seq![n], adj) == adj(n).to_multiset(), nodes_ms(Seq::<Node<K, N, E>>::empty(), adj) == Multiset::<Edge<K, N, E>>::empty()
{
    let s = seq![n];
    let e = Seq::<Node<K, N, E>>::empty();
    assert(s.drop_last() =~= e);
    assert(s.last() == n);
    assert(s.len() == 1);
    assert(nodes_ms(e, adj) == Multiset::<Edge<K, N, E>>::empty());
    assert(nodes_ms(s, adj) == nodes_ms(s.drop_last(), adj).add(adj(s.last()).to_multiset()));
    assert(Multiset::<Edge<K, N, E>>::empty().add(adj(n).to_multiset()) =~= adj(n).to_multiset());
}

// the edges recorded after position a, given that the prefix of length b is r0.push(e)
pub proof fn lemma_skip_after_push<K, N, E>(s: Seq<Edge<K, N, E>>, r0: Seq<Edge<K, N, E>>, e: Edge<K, N, E>, a: int)
    requires 0 <= a <= r0.len(), r0.len() + 1 <= s.len(), s.take(r0.len() as int + 1) == r0.push(e)
    ensures s.skip(a) == r0.skip(a) + (seq![e] + s.skip(r0.len() as int + 1)),
        tgts(s.skip(a)) == tgts(r0.skip(a)) + (seq![e.1] + tgts(s.skip(r0.len() as int + 1))),
{
    let b: int = r0.len() as int + 1;
    assert forall|i: int| 0 <= i < b implies s[i] == r0.push(e)[i] by { assert(s.take(b)[i] == s[i]); }
    assert(s.skip(a) =~= r0.skip(a) + (seq![e] + s.skip(b)));
    assert(tgts(s.skip(a)) =~= tgts(r0.skip(a)) + (seq![e.1] + tgts(s.skip(b))));
}

pub proof fn lemma_disc_concat<K, N, E>(a: Seq<Node<K, N, E>>, b: Seq<Node<K, N, E>>, v0: Set<K>, v1: Set<K>, v2: Set<K>, root: Node<K, N, E>, acc: spec_fn(Edge<K, N, E>) -> bool, adj: spec_fn(Node<K, N, E>) -> Seq<Edge<K, N, E>>)
    requires disc_ok(a, v0, v1, root, acc, adj), disc_ok(b, v1, v2, root, acc, adj)
    ensures disc_ok(a + b, v0, v2, root, acc, adj)
{
    let c = a + b;
    assert forall|k: K| v2.contains(k) <==> (v0.contains(k) || exists|i: int| 0 <= i < c.len() && (#[trigger] c[i]).k() == k) by {
        if v2.contains(k) {
            if v1.contains(k) {
                if !v0.contains(k) { let i = choose|i: int| 0 <= i < a.len() && (#[trigger] a[i]).k() == k; assert(c[i] == a[i]); }
            } else {
                let i = choose|i: int| 0 <= i < b.len() && (#[trigger] b[i]).k() == k; assert(c[a.len() + i] == b[i]);
            }
        } else if exists|i: int| 0 <= i < c.len() && (#[trigger] c[i]).k() == k {
            let i = choose|i: int| 0 <= i < c.len() && (#[trigger] c[i]).k() == k;
            if i < a.len() { assert(c[i] == a[i]); assert(v1.contains(k)); } else { assert(c[i] == b[i - a.len()]); }
        }
    }
    assert forall|i: int, j: int| 0 <= i < j < c.len() implies (#[trigger] c[i]).k() != (#[trigger] c[j]).k() by {
        if j < a.len() { assert(c[i] == a[i] && c[j] == a[j]); }
        else if i >= a.len() { assert(c[i] == b[i - a.len()] && c[j] == b[j - a.len()]); }
        else { assert(c[i] == a[i] && c[j] == b[j - a.len()]); assert(v1.contains(a[i].k())); assert(!v1.contains(b[j - a.len()].k())); }
    }
    assert forall|i: int| 0 <= i < c.len() implies !v0.contains((#[trigger] c[i]).k()) && universe::<K, N, E>().contains(c[i]) && reach0(root, c[i].k(), acc, adj) by {
        if i < a.len() { assert(c[i] == a[i]); } else { assert(c[i] == b[i - a.len()]); assert(!v1.contains(b[i - a.len()].k())); }
    }
}

pub proof fn lemma_disc_empty<K, N, E>(vis: Set<K>, root: Node<K, N, E>, acc: spec_fn(Edge<K, N, E>) -> bool, adj: spec_fn(Node<K, N, E>) -> Seq<Edge<K, N, E>>)
    ensures disc_ok(Seq::<Node<K, N, E>>::empty(), vis, vis, root, acc, adj)
{}

// postorder step: result = r2.push(e) where r2 extends r0 by the edges the recursive call on e.1 recorded
pub proof fn proof_post_log<K, N, E>(s: Seq<Edge<K, N, E>>, r0: Seq<Edge<K, N, E>>, r2: Seq<Edge<K, N, E>>, e: Edge<K, N, E>, a: int, adj: spec_fn(Node<K, N, E>) -> Seq<Edge<K, N, E>>)
    requires 0 <= a <= r0.len() <= r2.len(), r2.take(r0.len() as int) == r0, s == r2.push(e)
    ensures nodes_ms(tgts(s.skip(a)), adj) == nodes_ms(tgts(r0.skip(a)), adj).add(nodes_ms(seq![e.1] + tgts(r2.skip(r0.len() as int)), adj))
{
    let b = r0.len() as int;
    let mid = tgts(r2.skip(b));
    assert forall|i: int| 0 <= i < b implies r2[i] == r0[i] by { assert(r2.take(b)[i] == r2[i]); }
    assert(tgts(s.skip(a)) =~= tgts(r0.skip(a)) + (mid + seq![e.1]));
    lemma_nodes_ms_concat(tgts(r0.skip(a)), mid + seq![e.1], adj);
    lemma_nodes_ms_concat(mid, seq![e.1], adj);
    lemma_nodes_ms_concat(seq![e.1], mid, adj);
    assert(nodes_ms(mid, adj).add(nodes_ms(seq![e.1], adj)) =~= nodes_ms(seq![e.1], adj).add(nodes_ms(mid, adj)));
}

// ---- the callback log for the priority queue: nodes are expanded in heap order, so the bookkeeping is
// by counts: expanded + still pending == initially pending + newly recorded targets ----
pub open spec fn heap_done<K, N, E, T>(done: Seq<Node<K, N, E>>, h0: Multiset<T>, h1: Multiset<T>, wrapf: spec_fn(Node<K, N, E>) -> T, tg: Seq<Node<K, N, E>>) -> bool {
    forall|n: Node<K, N, E>| #[trigger] done.to_multiset().count(n) + h1.count(wrapf(n)) == h0.count(wrapf(n)) + tg.to_multiset().count(n)
}
pub open spec fn injective<K, N, E, T>(wrapf: spec_fn(Node<K, N, E>) -> T) -> bool {
    forall|a: Node<K, N, E>, b: Node<K, N, E>| #[trigger] wrapf(a) == #[trigger] wrapf(b) ==> a == b
}
pub proof fn lemma_heap_done_pop<K, N, E, T>(done: Seq<Node<K, N, E>>, h0: Multiset<T>, hg: Multiset<T>, wrapf: spec_fn(Node<K, N, E>) -> T, tg: Seq<Node<K, N, E>>, node: Node<K, N, E>)
    requires heap_done(done, h0, hg, wrapf, tg), hg.count(wrapf(node)) > 0, injective(wrapf)
    ensures heap_done(done.push(node), h0, hg.remove(wrapf(node)), wrapf, tg)
{
    broadcast use vstd::seq_lib::group_to_multiset_ensures;
    let h1 = hg.remove(wrapf(node));
    assert forall|n: Node<K, N, E>| #[trigger] done.push(node).to_multiset().count(n) + h1.count(wrapf(n)) == h0.count(wrapf(n)) + tg.to_multiset().count(n) by {
        assert(done.to_multiset().count(n) + hg.count(wrapf(n)) == h0.count(wrapf(n)) + tg.to_multiset().count(n));
        assert(done.push(node).to_multiset() == done.to_multiset().insert(node));
        if n == node { } else { assert(wrapf(n) != wrapf(node)); }
    }
}
pub proof fn lemma_heap_done_push<K, N, E, T>(done: Seq<Node<K, N, E>>, h0: Multiset<T>, h: Multiset<T>, wrapf: spec_fn(Node<K, N, E>) -> T, tg: Seq<Node<K, N, E>>, v: Node<K, N, E>)
    requires heap_done(done, h0, h, wrapf, tg), injective(wrapf)
    ensures heap_done(done, h0, h.insert(wrapf(v)), wrapf, tg.push(v))
{
    broadcast use vstd::seq_lib::group_to_multiset_ensures;
    let h1 = h.insert(wrapf(v));
    assert forall|n: Node<K, N, E>| #[trigger] done.to_multiset().count(n) + h1.count(wrapf(n)) == h0.count(wrapf(n)) + tg.push(v).to_multiset().count(n) by {
        assert(done.to_multiset().count(n) + h.count(wrapf(n)) == h0.count(wrapf(n)) + tg.to_multiset().count(n));
        assert(tg.push(v).to_multiset() == tg.to_multiset().insert(v));
        if n == v { } else { assert(wrapf(n) != wrapf(v)); }
    }
}
// top level: the heap initially holds the root only and is empty at the end
pub proof fn lemma_heap_done_exactly<K, N, E, T>(done: Seq<Node<K, N, E>>, h0: Multiset<T>, h1: Multiset<T>, wrapf: spec_fn(Node<K, N, E>) -> T, r: Seq<Edge<K, N, E>>, root: Node<K, N, E>, acc: spec_fn(Edge<K, N, E>) -> bool, adj: spec_fn(Node<K, N, E>) -> Seq<Edge<K, N, E>>)
    requires heap_done(done, h0, h1, wrapf, tgts(r)), injective(wrapf), h0 == Multiset::<T>::empty().insert(wrapf(root)), h1.len() == 0,
        expands_exactly(seq![root] + tgts(r), root, acc, adj),
    ensures expands_exactly(done, root, acc, adj)
{
    broadcast use vstd::seq_lib::group_to_multiset_ensures;
    let a = seq![root] + tgts(r);
    vstd::seq_lib::lemma_multiset_commutative(seq![root], tgts(r));
    assert(seq![root] =~= Seq::<Node<K, N, E>>::empty().push(root));
    assert forall|n: Node<K, N, E>| #[trigger] done.to_multiset().count(n) == a.to_multiset().count(n) by {
        assert(done.to_multiset().count(n) + h1.count(wrapf(n)) == h0.count(wrapf(n)) + tgts(r).to_multiset().count(n));
        vstd::multiset::lemma_multiset_empty_len(h1);
        assert(h1.count(wrapf(n)) == 0);
        if n == root { } else { assert(wrapf(n) != wrapf(root)); }
        assert(seq![root].to_multiset().count(n) == (if n == root { 1nat } else { 0nat }));
    }
    lemma_exactly_perm(a, done, root, acc, adj);
}

// ---- step lemmas that keep the recursion proofs small ----
// the nodes that became visited since vis00 stay closed when the recursive call on v returns
pub proof fn lemma_new_closed_step<K, N, E>(vis00: Set<K>, v0: Set<K>, v2: Set<K>, v: Node<K, N, E>, acc: spec_fn(Edge<K, N, E>) -> bool, adj: spec_fn(Node<K, N, E>) -> Seq<Edge<K, N, E>>)
    requires keys_distinct::<K, N, E>(), universe::<K, N, E>().contains(v), new_closed(vis00, v0, acc, adj), closed_at(v, v2, acc, adj), new_closed(v0.insert(v.k()), v2, acc, adj),
        forall|k: K| v0.contains(k) ==> v2.contains(k), forall|k: K| vis00.contains(k) ==> v0.contains(k),
    ensures new_closed(vis00, v2, acc, adj)
{
    assert forall|u: Node<K, N, E>| #[trigger] universe::<K, N, E>().contains(u) && v2.contains(u.k()) && !vis00.contains(u.k()) implies closed_at(u, v2, acc, adj) by {
        if v0.contains(u.k()) { assert(closed_at(u, v0, acc, adj)); }
        else if v0.insert(v.k()).contains(u.k()) { lemma_keys(u, v); }
    }
}

// postorder: after the recursive call on e.1 returned (r0 -> r2, v0+{e.1} -> v2) the edge e is recorded
pub proof fn lemma_post_step<K, N, E>(r0: Seq<Edge<K, N, E>>, r2: Seq<Edge<K, N, E>>, v0: Set<K>, v2: Set<K>, e: Edge<K, N, E>, a: int, node: Node<K, N, E>, acc: spec_fn(Edge<K, N, E>) -> bool, adj: spec_fn(Node<K, N, E>) -> Seq<Edge<K, N, E>>)
    requires 0 <= a <= r0.len(), pedges(r0, a, node, acc, adj), distinct_targets(r0), vis_sup(v0, r0),
        !v0.contains(e.1.k()), e.0 == node, universe::<K, N, E>().contains(e.0), in_adj(e, adj), acc(e),
        ext(v0.insert(e.1.k()), r0, v2, r2), vis_sup(v2, r2), distinct_targets(r2), pedges(r2, r0.len() as int, e.1, acc, adj),
    ensures pedges(r2.push(e), a, node, acc, adj), distinct_targets(r2.push(e)), vis_sup(v2, r2.push(e)), v2.contains(e.1.k())
{
    reveal(ext);
    let r3 = r2.push(e);
    let v1 = v0.insert(e.1.k());
    assert(v1.contains(e.1.k()));
    assert forall|i: int| 0 <= i < r0.len() implies r2[i] == r0[i] by { assert(r2.take(r0.len() as int)[i] == r2[i]); }
    assert forall|i: int| 0 <= i < r3.len() implies v2.contains((#[trigger] r3[i]).1.k()) by {
        if i < r2.len() { assert(r3[i] == r2[i]); }
    }
    assert forall|i: int, j: int| 0 <= i < j < r3.len() implies (#[trigger] r3[i]).1.k() != (#[trigger] r3[j]).1.k() by {
        if j < r2.len() { assert(r3[i] == r2[i] && r3[j] == r2[j]); }
        else {
            assert(r3[i] == r2[i]);
            if i < r0.len() { assert(v0.contains(r0[i].1.k())); } else { assert(!v1.contains(r2[i].1.k())); }
        }
    }
    assert forall|i: int| a <= i < r3.len() implies universe::<K, N, E>().contains((#[trigger] r3[i]).0) && in_adj(r3[i], adj) && acc(r3[i])
        && (r3[i].0 == node || exists|j: int| i < j < r3.len() && r3[j].1 == r3[i].0) by {
        if i < r0.len() {
            assert(r3[i] == r0[i]);
            if r0[i].0 != node {
                let j = choose|j: int| i < j < r0.len() && r0[j].1 == r0[i].0;
                assert(r3[j] == r0[j]);
            }
        } else if i < r2.len() {
            assert(r3[i] == r2[i]);
            if r2[i].0 != e.1 {
                let j = choose|j: int| i < j < r2.len() && r2[j].1 == r2[i].0;
                assert(r3[j] == r2[j]);
            } else {
                assert(r3[r2.len() as int].1 == e.1);
            }
        }
    }
}

// ---- postorder, clause (e) of C10: for every accepted edge x -> y between returned nodes, y is finished
// (recorded) before x unless x is reachable from y ----
pub open spec fn fin_before<K, N, E>(r: Seq<Edge<K, N, E>>, upto: int, y: Node<K, N, E>) -> bool {
    exists|j: int| 0 <= j < upto && j < r.len() && (#[trigger] r[j]).1 == y
}
// x is recorded at position px (or, for the node whose edge has not been recorded yet, px = r.len())
pub open spec fn fin_ok<K, N, E>(x: Node<K, N, E>, px: int, r: Seq<Edge<K, N, E>>, acc: spec_fn(Edge<K, N, E>) -> bool, adj: spec_fn(Node<K, N, E>) -> Seq<Edge<K, N, E>>) -> bool {
    forall|i: int| 0 <= i < adj(x).len() && acc(#[trigger] adj(x)[i]) ==> fin_before(r, px, adj(x)[i].1) || reach0(adj(x)[i].1, x.k(), acc, adj)
}
#[verifier::opaque]
pub open spec fn fin_upto<K, N, E>(x: Node<K, N, E>, m: int, px: int, r: Seq<Edge<K, N, E>>, acc: spec_fn(Edge<K, N, E>) -> bool, adj: spec_fn(Node<K, N, E>) -> Seq<Edge<K, N, E>>) -> bool {
    forall|i: int| 0 <= i < m && i < adj(x).len() && acc(#[trigger] adj(x)[i]) ==> fin_before(r, px, adj(x)[i].1) || reach0(adj(x)[i].1, x.k(), acc, adj)
}
// every node recorded from index `from` on satisfies the condition at its own position
#[verifier::opaque]
pub open spec fn fin_all<K, N, E>(r: Seq<Edge<K, N, E>>, from: int, acc: spec_fn(Edge<K, N, E>) -> bool, adj: spec_fn(Node<K, N, E>) -> Seq<Edge<K, N, E>>) -> bool {
    forall|i: int| from <= i < r.len() ==> fin_ok((#[trigger] r[i]).1, i, r, acc, adj)
}
// every visited node that is not yet recorded (the node being expanded and its ancestors) reaches `top`
#[verifier::opaque]
pub open spec fn pend_reach<K, N, E>(vis: Set<K>, r: Seq<Edge<K, N, E>>, top: Node<K, N, E>, acc: spec_fn(Edge<K, N, E>) -> bool, adj: spec_fn(Node<K, N, E>) -> Seq<Edge<K, N, E>>) -> bool {
    forall|n: Node<K, N, E>| #[trigger] universe::<K, N, E>().contains(n) && vis.contains(n.k()) && !fin_before(r, r.len() as int, n) ==> reach0(n, top.k(), acc, adj)
}
// the statement of C10 (e) for a complete postorder edge list
pub open spec fn postorder_ok<K, N, E>(r: Seq<Edge<K, N, E>>, root: Node<K, N, E>, acc: spec_fn(Edge<K, N, E>) -> bool, adj: spec_fn(Node<K, N, E>) -> Seq<Edge<K, N, E>>) -> bool {
    fin_all(r, 0, acc, adj) && fin_ok(root, r.len() as int, r, acc, adj)
}

pub proof fn lemma_fin_before_mono<K, N, E>(r: Seq<Edge<K, N, E>>, r2: Seq<Edge<K, N, E>>, p: int, y: Node<K, N, E>)
    requires r.len() <= r2.len(), r2.take(r.len() as int) == r, fin_before(r, p, y)
    ensures fin_before(r2, p, y)
{
    let j = choose|j: int| 0 <= j < p && j < r.len() && (#[trigger] r[j]).1 == y;
    assert(r2.take(r.len() as int)[j] == r2[j]);
}

pub proof fn lemma_fin_ok_mono<K, N, E>(x: Node<K, N, E>, px: int, r: Seq<Edge<K, N, E>>, r2: Seq<Edge<K, N, E>>, acc: spec_fn(Edge<K, N, E>) -> bool, adj: spec_fn(Node<K, N, E>) -> Seq<Edge<K, N, E>>)
    requires r.len() <= r2.len(), r2.take(r.len() as int) == r, fin_ok(x, px, r, acc, adj)
    ensures fin_ok(x, px, r2, acc, adj)
{
    assert forall|i: int| 0 <= i < adj(x).len() && acc(#[trigger] adj(x)[i]) implies fin_before(r2, px, adj(x)[i].1) || reach0(adj(x)[i].1, x.k(), acc, adj) by {
        if fin_before(r, px, adj(x)[i].1) { lemma_fin_before_mono(r, r2, px, adj(x)[i].1); }
    }
}

// the postorder step: after the recursive call on e.1 returned (r0 -> r2) the edge e is recorded
pub proof fn lemma_fin_step<K, N, E>(r0: Seq<Edge<K, N, E>>, r2: Seq<Edge<K, N, E>>, e: Edge<K, N, E>, a: int, acc: spec_fn(Edge<K, N, E>) -> bool, adj: spec_fn(Node<K, N, E>) -> Seq<Edge<K, N, E>>)
    requires 0 <= a <= r0.len() <= r2.len(), r2.take(r0.len() as int) == r0,
        fin_all(r0, a, acc, adj), fin_all(r2, r0.len() as int, acc, adj), fin_ok(e.1, r2.len() as int, r2, acc, adj),
    ensures fin_all(r2.push(e), a, acc, adj), fin_before(r2.push(e), r2.len() as int + 1, e.1)
{
    reveal(fin_all);
    let r3 = r2.push(e);
    assert(r3.take(r2.len() as int) =~= r2);
    assert(r3.take(r0.len() as int) =~= r0);
    assert forall|i: int| a <= i < r3.len() implies fin_ok((#[trigger] r3[i]).1, i, r3, acc, adj) by {
        if i < r0.len() {
            assert(r3.take(r0.len() as int)[i] == r3[i]);
            lemma_fin_ok_mono(r0[i].1, i, r0, r3, acc, adj);
        } else if i < r2.len() {
            assert(r3[i] == r2[i]);
            lemma_fin_ok_mono(r2[i].1, i, r2, r3, acc, adj);
        } else {
            lemma_fin_ok_mono(e.1, r2.len() as int, r2, r3, acc, adj);
        }
    }
    assert(r3[r2.len() as int].1 == e.1);
}

// what the recursive call on e.1 may assume: every visited, unrecorded node reaches e.1
pub proof fn lemma_pend_reach_call<K, N, E>(v0: Set<K>, r0: Seq<Edge<K, N, E>>, node: Node<K, N, E>, e: Edge<K, N, E>, acc: spec_fn(Edge<K, N, E>) -> bool, adj: spec_fn(Node<K, N, E>) -> Seq<Edge<K, N, E>>)
    requires graph_ok(adj), pend_reach(v0, r0, node, acc, adj), e.0 == node, universe::<K, N, E>().contains(node), in_adj(e, adj), acc(e), universe::<K, N, E>().contains(e.1),
    ensures pend_reach(v0.insert(e.1.k()), r0, e.1, acc, adj)
{
    reveal(pend_reach);
    assert forall|n: Node<K, N, E>| #[trigger] universe::<K, N, E>().contains(n) && v0.insert(e.1.k()).contains(n.k()) && !fin_before(r0, r0.len() as int, n) implies reach0(n, e.1.k(), acc, adj) by {
        if n.k() != e.1.k() {
            assert(reach0(n, node.k(), acc, adj));
            lemma_reach_step(n, acc, adj, e);
        }
    }
}

// after the call returned and e was recorded, the set of visited-unrecorded nodes is what it was before
pub proof fn lemma_pend_reach_back<K, N, E>(v0: Set<K>, r0: Seq<Edge<K, N, E>>, v2: Set<K>, r2: Seq<Edge<K, N, E>>, node: Node<K, N, E>, e: Edge<K, N, E>, acc: spec_fn(Edge<K, N, E>) -> bool, adj: spec_fn(Node<K, N, E>) -> Seq<Edge<K, N, E>>)
    requires keys_distinct::<K, N, E>(), pend_reach(v0, r0, node, acc, adj), ext(v0.insert(e.1.k()), r0, v2, r2), universe::<K, N, E>().contains(e.1),
        forall|i: int| r0.len() <= i < r2.len() ==> universe::<K, N, E>().contains((#[trigger] r2[i]).1),
    ensures pend_reach(v2, r2.push(e), node, acc, adj)
{
    reveal(pend_reach);
    reveal(ext);
    let r3 = r2.push(e);
    assert forall|n: Node<K, N, E>| #[trigger] universe::<K, N, E>().contains(n) && v2.contains(n.k()) && !fin_before(r3, r3.len() as int, n) implies reach0(n, node.k(), acc, adj) by {
        if v0.contains(n.k()) {
            if fin_before(r0, r0.len() as int, n) {
                let j = choose|j: int| 0 <= j < r0.len() && j < r0.len() && (#[trigger] r0[j]).1 == n;
                assert(r2.take(r0.len() as int)[j] == r2[j]);
                assert(r3[j] == r2[j]);
            }
        } else if n.k() == e.1.k() {
            lemma_keys(n, e.1);
            assert(r3[r2.len() as int].1 == n);
        } else {
            let i = choose|i: int| r0.len() <= i < r2.len() && (#[trigger] r2[i]).1.k() == n.k();
            lemma_keys(n, r2[i].1);
            assert(r3[i] == r2[i]);
        }
    }
}

pub proof fn lemma_fin_upto_mono<K, N, E>(x: Node<K, N, E>, m: int, p: int, r: Seq<Edge<K, N, E>>, p2: int, r2: Seq<Edge<K, N, E>>, acc: spec_fn(Edge<K, N, E>) -> bool, adj: spec_fn(Node<K, N, E>) -> Seq<Edge<K, N, E>>)
    requires r.len() <= r2.len(), r2.take(r.len() as int) == r, p <= p2, fin_upto(x, m, p, r, acc, adj)
    ensures fin_upto(x, m, p2, r2, acc, adj)
{
    reveal(fin_upto);
    assert forall|i: int| 0 <= i < m && i < adj(x).len() && acc(#[trigger] adj(x)[i]) implies fin_before(r2, p2, adj(x)[i].1) || reach0(adj(x)[i].1, x.k(), acc, adj) by {
        if fin_before(r, p, adj(x)[i].1) {
            lemma_fin_before_mono(r, r2, p, adj(x)[i].1);
            let j = choose|j: int| 0 <= j < p && j < r2.len() && (#[trigger] r2[j]).1 == adj(x)[i].1;
            assert(0 <= j < p2);
        }
    }
}

pub proof fn lemma_pedges_targets_uni<K, N, E>(r: Seq<Edge<K, N, E>>, from: int, top: Node<K, N, E>, acc: spec_fn(Edge<K, N, E>) -> bool, adj: spec_fn(Node<K, N, E>) -> Seq<Edge<K, N, E>>)
    requires graph_ok(adj), pedges(r, from, top, acc, adj), 0 <= from
    ensures forall|i: int| from <= i < r.len() ==> universe::<K, N, E>().contains((#[trigger] r[i]).1)
{
    assert forall|i: int| from <= i < r.len() implies universe::<K, N, E>().contains((#[trigger] r[i]).1) by {
        let e = r[i];
        let j = choose|j: int| 0 <= j < adj(e.0).len() && (#[trigger] adj(e.0)[j]) == e;
        assert(universe::<K, N, E>().contains(adj(e.0)[j].1));
    }
}

pub proof fn lemma_fin_init<K, N, E>(x: Node<K, N, E>, r: Seq<Edge<K, N, E>>, acc: spec_fn(Edge<K, N, E>) -> bool, adj: spec_fn(Node<K, N, E>) -> Seq<Edge<K, N, E>>)
    ensures fin_upto(x, 0, r.len() as int, r, acc, adj), fin_all(r, r.len() as int, acc, adj)
{
    reveal(fin_upto); reveal(fin_all);
}
// the next adjacency entry is settled: it is not accepted, or its target is recorded already, or its target reaches x
pub proof fn lemma_fin_upto_next<K, N, E>(x: Node<K, N, E>, m: int, px: int, r: Seq<Edge<K, N, E>>, acc: spec_fn(Edge<K, N, E>) -> bool, adj: spec_fn(Node<K, N, E>) -> Seq<Edge<K, N, E>>)
    requires fin_upto(x, m, px, r, acc, adj), 0 <= m < adj(x).len(),
        acc(adj(x)[m]) ==> fin_before(r, px, adj(x)[m].1) || reach0(adj(x)[m].1, x.k(), acc, adj),
    ensures fin_upto(x, m + 1, px, r, acc, adj)
{
    reveal(fin_upto);
}
pub proof fn lemma_fin_upto_done<K, N, E>(x: Node<K, N, E>, m: int, px: int, r: Seq<Edge<K, N, E>>, acc: spec_fn(Edge<K, N, E>) -> bool, adj: spec_fn(Node<K, N, E>) -> Seq<Edge<K, N, E>>)
    requires fin_upto(x, m, px, r, acc, adj), m >= adj(x).len()
    ensures fin_ok(x, px, r, acc, adj)
{
    reveal(fin_upto);
}
// a visited node is recorded already or reaches the node being expanded
pub proof fn lemma_pend_visited<K, N, E>(vis: Set<K>, r: Seq<Edge<K, N, E>>, top: Node<K, N, E>, n: Node<K, N, E>, acc: spec_fn(Edge<K, N, E>) -> bool, adj: spec_fn(Node<K, N, E>) -> Seq<Edge<K, N, E>>)
    requires pend_reach(vis, r, top, acc, adj), universe::<K, N, E>().contains(n), vis.contains(n.k())
    ensures fin_before(r, r.len() as int, n) || reach0(n, top.k(), acc, adj)
{
    reveal(pend_reach);
}
pub proof fn lemma_pend_init<K, N, E>(vis: Set<K>, r: Seq<Edge<K, N, E>>, root: Node<K, N, E>, acc: spec_fn(Edge<K, N, E>) -> bool, adj: spec_fn(Node<K, N, E>) -> Seq<Edge<K, N, E>>)
    requires forall|n: Node<K, N, E>| #[trigger] universe::<K, N, E>().contains(n) && vis.contains(n.k()) ==> n == root
    ensures pend_reach(vis, r, root, acc, adj)
{
    reveal(pend_reach);
}
pub proof fn lemma_postorder_ok<K, N, E>(r: Seq<Edge<K, N, E>>, root: Node<K, N, E>, acc: spec_fn(Edge<K, N, E>) -> bool, adj: spec_fn(Node<K, N, E>) -> Seq<Edge<K, N, E>>)
    requires fin_all(r, 0, acc, adj), fin_ok(root, r.len() as int, r, acc, adj)
    ensures postorder_ok(r, root, acc, adj)
{}
