// ===== lemmas_kosaraju.rs : path vocabulary for scc() (C11). No gdsl code. =====
pub open spec fn acc_all<K, N, E>() -> spec_fn(Edge<K, N, E>) -> bool { |e: Edge<K, N, E>| true }
// the filter `|Edge(_, v, _)| !set.contains(v.key())`
pub open spec fn acc_excl<K, N, E>(s: Set<K>) -> spec_fn(Edge<K, N, E>) -> bool { |e: Edge<K, N, E>| !s.contains(e.1.k()) }

pub open spec fn acc_excl_src<K, N, E>(s: Set<K>) -> spec_fn(Edge<K, N, E>) -> bool { |e: Edge<K, N, E>| !s.contains(e.0.k()) }

// C01 in the frozen world: every stored edge u -> v is listed in u's outbound and in v's inbound list
pub open spec fn mirror_ok<K, N, E>() -> bool {
    &&& forall|u: Node<K, N, E>, i: int| universe::<K, N, E>().contains(u) && 0 <= i < u.outs().len() ==> in_adj(rev(#[trigger] u.outs()[i]), adj_in::<K, N, E>())
    &&& forall|v: Node<K, N, E>, j: int| universe::<K, N, E>().contains(v) && 0 <= j < v.ins().len() ==> in_adj(#[trigger] v.ins()[j], adj_out::<K, N, E>())
}

// a key set that accepted-or-not edges never leave
pub open spec fn set_closed<K, N, E>(vs: Set<K>, adj: spec_fn(Node<K, N, E>) -> Seq<Edge<K, N, E>>) -> bool {
    forall|n: Node<K, N, E>, i: int| universe::<K, N, E>().contains(n) && vs.contains(n.k()) && 0 <= i < adj(n).len() ==> vs.contains((#[trigger] adj(n)[i]).1.k())
}

pub proof fn lemma_path_mono<K, N, E>(a: Node<K, N, E>, acc1: spec_fn(Edge<K, N, E>) -> bool, acc2: spec_fn(Edge<K, N, E>) -> bool, adj: spec_fn(Node<K, N, E>) -> Seq<Edge<K, N, E>>, p: Seq<Edge<K, N, E>>)
    requires is_path(p, a, acc1, adj), forall|i: int| 0 <= i < p.len() ==> acc2(#[trigger] p[i])
    ensures is_path(p, a, acc2, adj)
{
    reveal(is_path);
}

pub proof fn lemma_reach_mono<K, N, E>(a: Node<K, N, E>, k: K, acc1: spec_fn(Edge<K, N, E>) -> bool, acc2: spec_fn(Edge<K, N, E>) -> bool, adj: spec_fn(Node<K, N, E>) -> Seq<Edge<K, N, E>>)
    requires forall|e: Edge<K, N, E>| acc1(e) ==> #[trigger] acc2(e), reach0(a, k, acc1, adj)
    ensures reach0(a, k, acc2, adj)
{
    reveal(reach);
    if k != a.k() {
        let p = choose|p: Seq<Edge<K, N, E>>| is_path(p, a, acc1, adj) && p.last().1.k() == k;
        assert forall|i: int| 0 <= i < p.len() implies acc2(#[trigger] p[i]) by { reveal(is_path); }
        lemma_path_mono(a, acc1, acc2, adj, p);
    }
}

pub proof fn lemma_closed_set_path<K, N, E>(vs: Set<K>, a: Node<K, N, E>, acc: spec_fn(Edge<K, N, E>) -> bool, adj: spec_fn(Node<K, N, E>) -> Seq<Edge<K, N, E>>, p: Seq<Edge<K, N, E>>, i: int)
    requires graph_ok(adj), universe::<K, N, E>().contains(a), set_closed(vs, adj), vs.contains(a.k()), is_path(p, a, acc, adj), 0 <= i < p.len()
    ensures vs.contains(p[i].1.k()), vs.contains(p[i].0.k())
    decreases i
{
    lemma_path_in_uni(a, acc, adj, p, i);
    if i > 0 {
        lemma_closed_set_path(vs, a, acc, adj, p, i - 1);
        assert(p[i - 1].1 == p[i].0) by { reveal(is_path); }
    } else {
        assert(p[0].0 == a) by { reveal(is_path); }
    }
    assert(in_adj(p[i], adj)) by { reveal(is_path); }
    let j = choose|j: int| 0 <= j < adj(p[i].0).len() && (#[trigger] adj(p[i].0)[j]) == p[i];
}

pub proof fn lemma_closed_set_reach<K, N, E>(vs: Set<K>, a: Node<K, N, E>, k: K, acc: spec_fn(Edge<K, N, E>) -> bool, adj: spec_fn(Node<K, N, E>) -> Seq<Edge<K, N, E>>)
    requires graph_ok(adj), universe::<K, N, E>().contains(a), set_closed(vs, adj), vs.contains(a.k()), reach0(a, k, acc, adj)
    ensures vs.contains(k)
{
    reveal(reach);
    if k != a.k() {
        let p = choose|p: Seq<Edge<K, N, E>>| is_path(p, a, acc, adj) && p.last().1.k() == k;
        assert(p.len() > 0) by { reveal(is_path); }
        lemma_closed_set_path(vs, a, acc, adj, p, p.len() - 1);
    }
}

// a path that ends outside a closed set never enters it
pub proof fn lemma_path_outside<K, N, E>(vs: Set<K>, a: Node<K, N, E>, acc: spec_fn(Edge<K, N, E>) -> bool, adj: spec_fn(Node<K, N, E>) -> Seq<Edge<K, N, E>>, p: Seq<Edge<K, N, E>>, i: int)
    requires graph_ok(adj), universe::<K, N, E>().contains(a), set_closed(vs, adj), is_path(p, a, acc, adj), !vs.contains(p.last().1.k()), 0 <= i < p.len()
    ensures !vs.contains(p[i].1.k())
    decreases p.len() - i
{
    if i < p.len() - 1 {
        lemma_path_outside(vs, a, acc, adj, p, i + 1);
        lemma_path_in_uni(a, acc, adj, p, i + 1);
        assert(p[i].1 == p[i + 1].0) by { reveal(is_path); }
        assert(in_adj(p[i + 1], adj)) by { reveal(is_path); }
        let j = choose|j: int| 0 <= j < adj(p[i + 1].0).len() && (#[trigger] adj(p[i + 1].0)[j]) == p[i + 1];
    }
}

// reachability that ends outside a closed set is reachability under the filter that excludes the set
pub proof fn lemma_reach_outside<K, N, E>(vs: Set<K>, a: Node<K, N, E>, k: K, adj: spec_fn(Node<K, N, E>) -> Seq<Edge<K, N, E>>)
    requires graph_ok(adj), universe::<K, N, E>().contains(a), set_closed(vs, adj), reach0(a, k, acc_all(), adj), !vs.contains(k)
    ensures reach0(a, k, acc_excl(vs), adj)
{
    reveal(reach);
    if k != a.k() {
        let p = choose|p: Seq<Edge<K, N, E>>| is_path(p, a, acc_all(), adj) && p.last().1.k() == k;
        assert forall|i: int| 0 <= i < p.len() implies acc_excl::<K, N, E>(vs)(#[trigger] p[i]) by {
            lemma_path_outside(vs, a, acc_all(), adj, p, i);
        }
        lemma_path_mono(a, acc_all(), acc_excl(vs), adj, p);
    }
}

// every node on a path is reachable from its start and reaches its end
pub proof fn lemma_path_prefix<K, N, E>(a: Node<K, N, E>, acc: spec_fn(Edge<K, N, E>) -> bool, adj: spec_fn(Node<K, N, E>) -> Seq<Edge<K, N, E>>, p: Seq<Edge<K, N, E>>, i: int)
    requires graph_ok(adj), universe::<K, N, E>().contains(a), is_path(p, a, acc, adj), 0 <= i < p.len()
    ensures reach0(a, p[i].0.k(), acc, adj), reach(a, p[i].1.k(), acc, adj)
    decreases i
{
    lemma_path_in_uni(a, acc, adj, p, i);
    if i > 0 {
        lemma_path_prefix(a, acc, adj, p, i - 1);
        assert(p[i - 1].1 == p[i].0) by { reveal(is_path); }
    } else {
        assert(p[0].0 == a) by { reveal(is_path); }
    }
    assert(in_adj(p[i], adj) && acc(p[i])) by { reveal(is_path); }
    lemma_reach_step(a, acc, adj, p[i]);
}
pub proof fn lemma_path_suffix<K, N, E>(a: Node<K, N, E>, acc: spec_fn(Edge<K, N, E>) -> bool, adj: spec_fn(Node<K, N, E>) -> Seq<Edge<K, N, E>>, p: Seq<Edge<K, N, E>>, i: int)
    requires graph_ok(adj), universe::<K, N, E>().contains(a), is_path(p, a, acc, adj), 0 <= i < p.len()
    ensures reach(p[i].0, p.last().1.k(), acc, adj)
    decreases p.len() - i
{
    lemma_path_in_uni(a, acc, adj, p, i);
    assert(in_adj(p[i], adj) && acc(p[i])) by { reveal(is_path); }
    if i < p.len() - 1 {
        lemma_path_suffix(a, acc, adj, p, i + 1);
        assert(p[i].1 == p[i + 1].0) by { reveal(is_path); }
    }
    lemma_edge_reach(p[i], p.last().1.k(), acc, adj);
}

// reversal of a path: the same edges, each turned around, in the opposite order
pub open spec fn rev_path<K, N, E>(p: Seq<Edge<K, N, E>>) -> Seq<Edge<K, N, E>> {
    Seq::new(p.len(), |i: int| rev(p[p.len() - 1 - i]))
}
pub proof fn lemma_rev_path<K, N, E>(p: Seq<Edge<K, N, E>>, a: Node<K, N, E>, acc: spec_fn(Edge<K, N, E>) -> bool, adj_a: spec_fn(Node<K, N, E>) -> Seq<Edge<K, N, E>>,
    acc2: spec_fn(Edge<K, N, E>) -> bool, adj_b: spec_fn(Node<K, N, E>) -> Seq<Edge<K, N, E>>)
    requires is_path(p, a, acc, adj_a), forall|i: int| 0 <= i < p.len() ==> in_adj(rev(#[trigger] p[i]), adj_b) && acc2(rev(p[i]))
    ensures is_path(rev_path(p), p.last().1, acc2, adj_b), rev_path(p).last().1 == a
{
    reveal(is_path);
    let q = rev_path(p);
    assert forall|i: int| 0 <= i < q.len() implies in_adj(#[trigger] q[i], adj_b) && acc2(q[i]) by {
        assert(q[i] == rev(p[p.len() - 1 - i]));
    }
    assert forall|i: int| 0 <= i < q.len() - 1 implies (#[trigger] q[i]).1 == q[i + 1].0 by {
        let m = p.len() - 1 - i;
        assert(q[i] == rev(p[m]));
        assert(q[i + 1] == rev(p[m - 1]));
        assert(p[m - 1].1 == p[m].0);
    }
    assert(q[0] == rev(p[p.len() - 1]));
    assert(q[q.len() - 1] == rev(p[0]));
}

// ---- first pass of scc(): the concatenation of the postorders of a depth-first forest ----
pub open spec fn vis_is<K, N, E>(vs: Set<K>, ns: Seq<Node<K, N, E>>) -> bool {
    forall|k: K| vs.contains(k) <==> exists|i: int| 0 <= i < ns.len() && (#[trigger] ns[i]).k() == k
}
pub open spec fn all_uni<K, N, E>(ns: Seq<Node<K, N, E>>) -> bool {
    forall|i: int| 0 <= i < ns.len() ==> universe::<K, N, E>().contains(#[trigger] ns[i])
}
pub open spec fn distinct_keys<K, N, E>(ns: Seq<Node<K, N, E>>) -> bool {
    forall|i: int, j: int| 0 <= i < j < ns.len() ==> (#[trigger] ns[i]).k() != (#[trigger] ns[j]).k()
}
// the target of a path whose edges all pass the excluding filter is not excluded
pub proof fn lemma_reach_excl_target<K, N, E>(a: Node<K, N, E>, k: K, vs: Set<K>, adj: spec_fn(Node<K, N, E>) -> Seq<Edge<K, N, E>>)
    requires reach(a, k, acc_excl(vs), adj)
    ensures !vs.contains(k)
{
    reveal(reach); reveal(is_path);
    let p = choose|p: Seq<Edge<K, N, E>>| is_path(p, a, acc_excl(vs), adj) && p.last().1.k() == k;
    assert(acc_excl::<K, N, E>(vs)(p[p.len() - 1]));
}

pub proof fn lemma_forest_step<K, N, E>(ns: Seq<Node<K, N, E>>, vs: Set<K>, part: Seq<Node<K, N, E>>, root: Node<K, N, E>, vs2: Set<K>, adj: spec_fn(Node<K, N, E>) -> Seq<Edge<K, N, E>>)
    requires graph_ok(adj), vis_is(vs, ns), all_uni(ns), distinct_keys(ns), set_closed(vs, adj), scc_order_ok(ns, acc_all(), adj),
        universe::<K, N, E>().contains(root), !vs.contains(root.k()),
        nodes_reach(part, root, acc_excl(vs), adj), scc_order_ok(part, acc_excl(vs), adj),
        forall|k: K| vs2.contains(k) <==> (vs.contains(k) || exists|i: int| 0 <= i < part.len() && (#[trigger] part[i]).k() == k),
    ensures vis_is(vs2, ns + part), all_uni(ns + part), distinct_keys(ns + part), set_closed(vs2, adj), scc_order_ok(ns + part, acc_all(), adj)
{
    let c = ns + part;
    let n = ns.len() as int;
    let ax = acc_excl::<K, N, E>(vs);
    assert forall|e: Edge<K, N, E>| ax(e) implies #[trigger] acc_all::<K, N, E>()(e) by {}
    // the new nodes are not in vs
    assert forall|i: int| 0 <= i < part.len() implies !vs.contains((#[trigger] part[i]).k()) by {
        if part[i].k() != root.k() { lemma_reach_excl_target(root, part[i].k(), vs, adj); }
    }
    assert forall|k: K| vs2.contains(k) <==> exists|i: int| 0 <= i < c.len() && (#[trigger] c[i]).k() == k by {
        if vs.contains(k) {
            let i = choose|i: int| 0 <= i < ns.len() && (#[trigger] ns[i]).k() == k;
            assert(c[i] == ns[i]);
        } else if exists|i: int| 0 <= i < part.len() && (#[trigger] part[i]).k() == k {
            let i = choose|i: int| 0 <= i < part.len() && (#[trigger] part[i]).k() == k;
            assert(c[n + i] == part[i]);
        }
        if exists|i: int| 0 <= i < c.len() && (#[trigger] c[i]).k() == k {
            let i = choose|i: int| 0 <= i < c.len() && (#[trigger] c[i]).k() == k;
            if i < n { assert(c[i] == ns[i]); } else { assert(c[i] == part[i - n]); }
        }
    }
    assert forall|i: int| 0 <= i < c.len() implies universe::<K, N, E>().contains(#[trigger] c[i]) by {
        if i < n { assert(c[i] == ns[i]); } else { assert(c[i] == part[i - n]); }
    }
    assert forall|i: int, j: int| 0 <= i < j < c.len() implies (#[trigger] c[i]).k() != (#[trigger] c[j]).k() by {
        if j < n { assert(c[i] == ns[i] && c[j] == ns[j]); }
        else if i >= n { assert(c[i] == part[i - n] && c[j] == part[j - n]); }
        else { assert(c[i] == ns[i] && c[j] == part[j - n]); assert(vs.contains(ns[i].k())); }
    }
    assert forall|m: Node<K, N, E>, i: int| universe::<K, N, E>().contains(m) && vs2.contains(m.k()) && 0 <= i < adj(m).len() implies vs2.contains((#[trigger] adj(m)[i]).1.k()) by {
        let e = adj(m)[i];
        if !vs.contains(m.k()) && !vs.contains(e.1.k()) {
            let pi = choose|pi: int| 0 <= pi < part.len() && (#[trigger] part[pi]).k() == m.k();
            lemma_keys(m, part[pi]);
            assert(ax(e));
            assert(in_adj(e, adj));
            lemma_reach_step(root, ax, adj, e);
            assert(reach0(root, e.1.k(), ax, adj));
        }
    }
    assert forall|i: int, j: int| 0 <= i < c.len() && 0 <= j < c.len() && reach0(#[trigger] c[i], (#[trigger] c[j]).k(), acc_all(), adj) && !reach0(c[j], c[i].k(), acc_all(), adj)
        implies exists|k: int| j < k < c.len() && #[trigger] mutual(c[i], c[k], acc_all(), adj) by {
        if i < n && j < n {
            assert(c[i] == ns[i] && c[j] == ns[j]);
            let k = choose|k: int| j < k < ns.len() && #[trigger] mutual(ns[i], ns[k], acc_all(), adj);
            assert(c[k] == ns[k]);
        } else if i < n {
            assert(c[i] == ns[i] && c[j] == part[j - n]);
            assert(vs.contains(ns[i].k()));
            lemma_closed_set_reach(vs, c[i], c[j].k(), acc_all(), adj);
            assert(false);
        } else if j < n {
            assert(mutual(c[i], c[i], acc_all(), adj));
        } else {
            let u = part[i - n];
            let v = part[j - n];
            assert(c[i] == u && c[j] == v);
            lemma_reach_outside(vs, u, v.k(), adj);
            if reach0(v, u.k(), ax, adj) { lemma_reach_mono(v, u.k(), ax, acc_all(), adj); }
            let k = choose|k: int| j - n < k < part.len() && #[trigger] mutual(part[i - n], part[k], ax, adj);
            lemma_reach_mono(u, part[k].k(), ax, acc_all(), adj);
            lemma_reach_mono(part[k], u.k(), ax, acc_all(), adj);
            assert(c[n + k] == part[k]);
            assert(mutual(c[i], c[n + k], acc_all(), adj));
        }
    }
}

// ---- second pass of scc() ----
pub open spec fn listed<K, N, E>(x: Node<K, N, E>, ms: Seq<Node<K, N, E>>) -> bool {
    exists|t: int| 0 <= t < ms.len() && #[trigger] ms[t] == x
}
// c is a whole mutual-reachability class of the listed members `ms`
pub open spec fn is_scc<K, N, E>(c: Seq<Node<K, N, E>>, ms: Seq<Node<K, N, E>>, adj: spec_fn(Node<K, N, E>) -> Seq<Edge<K, N, E>>) -> bool {
    &&& all_uni(c) && distinct_keys(c)
    &&& forall|i: int| 0 <= i < c.len() ==> listed(#[trigger] c[i], ms)
    &&& forall|i: int, j: int| 0 <= i < c.len() && 0 <= j < c.len() ==> #[trigger] mutual(c[i], c[j], acc_all(), adj)
    &&& forall|i: int, t: int| 0 <= i < c.len() && 0 <= t < ms.len() && #[trigger] mutual(c[i], ms[t], acc_all(), adj) ==> exists|j: int| 0 <= j < c.len() && (#[trigger] c[j]).k() == ms[t].k()
}
pub open spec fn keys_in<K, N, E>(a: Set<K>, cs: Seq<Seq<Node<K, N, E>>>) -> bool {
    forall|k: K| a.contains(k) <==> exists|i: int, j: int| 0 <= i < cs.len() && 0 <= j < cs[i].len() && (#[trigger] cs[i][j]).k() == k
}
pub open spec fn comps_disjoint<K, N, E>(cs: Seq<Seq<Node<K, N, E>>>) -> bool {
    forall|i1: int, j1: int, i2: int, j2: int| 0 <= i1 < i2 < cs.len() && 0 <= j1 < cs[i1].len() && 0 <= j2 < cs[i2].len() ==> (#[trigger] cs[i1][j1]).k() != (#[trigger] cs[i2][j2]).k()
}
// state of the second pass after the members ms[m..] have been taken from the end of the ordering
pub open spec fn pass2_inv<K, N, E>(ms: Seq<Node<K, N, E>>, m: int, a: Set<K>, cs: Seq<Seq<Node<K, N, E>>>, adj: spec_fn(Node<K, N, E>) -> Seq<Edge<K, N, E>>) -> bool {
    &&& 0 <= m <= ms.len()
    &&& keys_in(a, cs)
    &&& forall|t: int| m <= t < ms.len() ==> a.contains((#[trigger] ms[t]).k())
    &&& forall|i: int| 0 <= i < cs.len() ==> is_scc(#[trigger] cs[i], ms, adj)
    &&& comps_disjoint(cs)
}

pub proof fn lemma_pass2_skip<K, N, E>(ms: Seq<Node<K, N, E>>, m: int, a: Set<K>, cs: Seq<Seq<Node<K, N, E>>>, adj: spec_fn(Node<K, N, E>) -> Seq<Edge<K, N, E>>)
    requires pass2_inv(ms, m, a, cs, adj), m > 0, a.contains(ms[m - 1].k())
    ensures pass2_inv(ms, m - 1, a, cs, adj)
{}

// the reversed-graph search from x, filtered by the finished components, yields a node c: c reaches x
pub proof fn lemma_in_reach_is_out_reach<K, N, E>(x: Node<K, N, E>, k: K, a: Set<K>)
    requires graph_ok::<K, N, E>(adj_in()), graph_ok::<K, N, E>(adj_out()), mirror_ok::<K, N, E>(), universe::<K, N, E>().contains(x),
        reach(x, k, acc_excl(a), adj_in())
    ensures exists|c: Node<K, N, E>| universe::<K, N, E>().contains(c) && c.k() == k && #[trigger] reach(c, x.k(), acc_all(), adj_out())
{
    reveal(reach);
    let q = choose|q: Seq<Edge<K, N, E>>| is_path(q, x, acc_excl(a), adj_in::<K, N, E>()) && q.last().1.k() == k;
    assert(q.len() > 0) by { reveal(is_path); }
    assert forall|i: int| 0 <= i < q.len() implies in_adj(rev(#[trigger] q[i]), adj_out::<K, N, E>()) && acc_all::<K, N, E>()(rev(q[i])) by {
        lemma_path_in_uni(x, acc_excl(a), adj_in::<K, N, E>(), q, i);
        assert(in_adj(q[i], adj_in::<K, N, E>())) by { reveal(is_path); }
        let v = q[i].0;
        let j = choose|j: int| 0 <= j < adj_in::<K, N, E>()(v).len() && (#[trigger] adj_in::<K, N, E>()(v)[j]) == q[i];
        assert(adj_in::<K, N, E>()(v)[j] == rev(v.ins()[j]));
        assert(rev(q[i]) == v.ins()[j]);
        assert(in_adj(v.ins()[j], adj_out::<K, N, E>()));
    }
    lemma_rev_path(q, x, acc_excl(a), adj_in::<K, N, E>(), acc_all(), adj_out::<K, N, E>());
    lemma_path_in_uni(x, acc_excl(a), adj_in::<K, N, E>(), q, q.len() - 1);
    let c = q.last().1;
    lemma_path_reach(c, acc_all(), adj_out::<K, N, E>(), rev_path(q));
}

// a forward path from y to x all of whose nodes lie outside `a` is a filtered path from x to y in the reversed graph
pub proof fn lemma_out_path_is_in_reach<K, N, E>(y: Node<K, N, E>, x: Node<K, N, E>, a: Set<K>, p: Seq<Edge<K, N, E>>)
    requires graph_ok::<K, N, E>(adj_in()), graph_ok::<K, N, E>(adj_out()), mirror_ok::<K, N, E>(), universe::<K, N, E>().contains(y), universe::<K, N, E>().contains(x),
        is_path(p, y, acc_all(), adj_out::<K, N, E>()), p.last().1.k() == x.k(),
        forall|i: int| 0 <= i < p.len() ==> !a.contains((#[trigger] p[i]).0.k()),
    ensures reach(x, y.k(), acc_excl(a), adj_in::<K, N, E>())
{
    assert(p.len() > 0) by { reveal(is_path); }
    assert forall|i: int| 0 <= i < p.len() implies in_adj(rev(#[trigger] p[i]), adj_in::<K, N, E>()) && acc_excl::<K, N, E>(a)(rev(p[i])) by {
        lemma_path_in_uni(y, acc_all(), adj_out::<K, N, E>(), p, i);
        assert(in_adj(p[i], adj_out::<K, N, E>())) by { reveal(is_path); }
        let u = p[i].0;
        let j = choose|j: int| 0 <= j < adj_out::<K, N, E>()(u).len() && (#[trigger] adj_out::<K, N, E>()(u)[j]) == p[i];
        assert(u.outs()[j] == p[i]);
    }
    lemma_rev_path(p, y, acc_all(), adj_out::<K, N, E>(), acc_excl(a), adj_in::<K, N, E>());
    lemma_path_in_uni(y, acc_all(), adj_out::<K, N, E>(), p, p.len() - 1);
    lemma_keys(p.last().1, x);
    lemma_path_reach(x, acc_excl(a), adj_in::<K, N, E>(), rev_path(p));
}

// what the second pass knows when it takes x = ms[m - 1], not yet in a finished component, from the ordering
pub open spec fn pass2_ctx<K, N, E>(ms: Seq<Node<K, N, E>>, mk: Set<K>, m: int, a: Set<K>, cs: Seq<Seq<Node<K, N, E>>>, x: Node<K, N, E>) -> bool {
    &&& graph_ok::<K, N, E>(adj_in()) && graph_ok::<K, N, E>(adj_out()) && mirror_ok::<K, N, E>()
    &&& all_uni(ms) && distinct_keys(ms) && vis_is(mk, ms)
    &&& set_closed(mk, adj_out::<K, N, E>()) && set_closed(mk, adj_in::<K, N, E>())
    &&& scc_order_ok(ms, acc_all(), adj_out::<K, N, E>())
    &&& pass2_inv(ms, m, a, cs, adj_out::<K, N, E>())
    &&& m > 0 && x == ms[m - 1] && !a.contains(x.k())
}

// a node found by the filtered search in the reversed graph is a member outside the finished components and is
// mutually reachable with x
pub proof fn lemma_pass2_member<K, N, E>(ms: Seq<Node<K, N, E>>, mk: Set<K>, m: int, a: Set<K>, cs: Seq<Seq<Node<K, N, E>>>, x: Node<K, N, E>, c: Node<K, N, E>)
    requires pass2_ctx(ms, mk, m, a, cs, x), universe::<K, N, E>().contains(c), reach0(x, c.k(), acc_excl(a), adj_in::<K, N, E>())
    ensures !a.contains(c.k()), listed(c, ms), mutual(x, c, acc_all(), adj_out::<K, N, E>())
{
    let ao = adj_out::<K, N, E>();
    if c.k() == x.k() {
        lemma_keys(c, x);
        assert(ms[m - 1] == c);
    } else {
        lemma_reach_excl_target(x, c.k(), a, adj_in::<K, N, E>());
        assert(mk.contains(x.k()));
        lemma_closed_set_reach(mk, x, c.k(), acc_excl(a), adj_in::<K, N, E>());
        let t = choose|t: int| 0 <= t < ms.len() && (#[trigger] ms[t]).k() == c.k();
        lemma_keys(ms[t], c);
        lemma_in_reach_is_out_reach(x, c.k(), a);
        let c2 = choose|c2: Node<K, N, E>| universe::<K, N, E>().contains(c2) && c2.k() == c.k() && #[trigger] reach(c2, x.k(), acc_all(), ao);
        lemma_keys(c2, c);
        if !reach0(x, c.k(), acc_all(), ao) {
            // c reaches x but x does not reach c: someone mutually reachable with c was taken before x
            let k = choose|k: int| m - 1 < k < ms.len() && #[trigger] mutual(ms[t], ms[k], acc_all(), ao);
            assert(a.contains(ms[k].k()));
            let (ci, cj) = choose|ci: int, cj: int| 0 <= ci < cs.len() && 0 <= cj < cs[ci].len() && (#[trigger] cs[ci][cj]).k() == ms[k].k();
            assert(is_scc(cs[ci], ms, ao));
            lemma_keys(cs[ci][cj], ms[k]);
            assert(mutual(cs[ci][cj], ms[t], acc_all(), ao));
            let j2 = choose|j2: int| 0 <= j2 < cs[ci].len() && (#[trigger] cs[ci][j2]).k() == ms[t].k();
            assert(a.contains(c.k()));
            assert(false);
        }
    }
}

// every member that is mutually reachable with x is found by the filtered search in the reversed graph
pub proof fn lemma_pass2_max<K, N, E>(ms: Seq<Node<K, N, E>>, mk: Set<K>, m: int, a: Set<K>, cs: Seq<Seq<Node<K, N, E>>>, x: Node<K, N, E>, t: int)
    requires pass2_ctx(ms, mk, m, a, cs, x), 0 <= t < ms.len(), mutual(x, ms[t], acc_all(), adj_out::<K, N, E>())
    ensures reach0(x, ms[t].k(), acc_excl(a), adj_in::<K, N, E>())
{
    let ao = adj_out::<K, N, E>();
    let y = ms[t];
    if y.k() != x.k() {
        reveal(reach);
        let p = choose|p: Seq<Edge<K, N, E>>| is_path(p, y, acc_all(), ao) && p.last().1.k() == x.k();
        assert(p.len() > 0) by { reveal(is_path); }
        assert forall|i: int| 0 <= i < p.len() implies !a.contains((#[trigger] p[i]).0.k()) by {
            let w = p[i].0;
            lemma_path_in_uni(y, acc_all(), ao, p, i);
            lemma_path_prefix(y, acc_all(), ao, p, i);
            lemma_path_suffix(y, acc_all(), ao, p, i);
            lemma_reach0_trans(x, y, w.k(), acc_all(), ao);
            if a.contains(w.k()) {
                let (ci, cj) = choose|ci: int, cj: int| 0 <= ci < cs.len() && 0 <= cj < cs[ci].len() && (#[trigger] cs[ci][cj]).k() == w.k();
                assert(is_scc(cs[ci], ms, ao));
                lemma_keys(cs[ci][cj], w);
                assert(mutual(cs[ci][cj], ms[m - 1], acc_all(), ao));
                let j2 = choose|j2: int| 0 <= j2 < cs[ci].len() && (#[trigger] cs[ci][j2]).k() == ms[m - 1].k();
                assert(a.contains(x.k()));
                assert(false);
            }
        }
        lemma_out_path_is_in_reach(y, x, a, p);
    }
}

pub proof fn lemma_pass2_step<K, N, E>(ms: Seq<Node<K, N, E>>, mk: Set<K>, m: int, a: Set<K>, cs: Seq<Seq<Node<K, N, E>>>, x: Node<K, N, E>, comp: Seq<Node<K, N, E>>, a2: Set<K>)
    requires pass2_ctx(ms, mk, m, a, cs, x), nodes_reach(comp, x, acc_excl(a), adj_in::<K, N, E>()),
        forall|k: K| a2.contains(k) <==> (a.contains(k) || exists|i: int| 0 <= i < comp.len() && (#[trigger] comp[i]).k() == k),
    ensures pass2_inv(ms, m - 1, a2, cs.push(comp), adj_out::<K, N, E>())
{
    let ao = adj_out::<K, N, E>();
    let cs2 = cs.push(comp);
    let n = cs.len() as int;
    assert forall|i: int| 0 <= i < comp.len() implies !a.contains((#[trigger] comp[i]).k()) && listed(comp[i], ms) && mutual(x, comp[i], acc_all(), ao) by {
        lemma_pass2_member(ms, mk, m, a, cs, x, comp[i]);
    }
    // comp is a whole class
    assert forall|i: int, j: int| 0 <= i < comp.len() && 0 <= j < comp.len() implies #[trigger] mutual(comp[i], comp[j], acc_all(), ao) by {
        lemma_reach0_trans(comp[i], x, comp[j].k(), acc_all(), ao);
        lemma_reach0_trans(comp[j], x, comp[i].k(), acc_all(), ao);
    }
    assert forall|i: int, t: int| 0 <= i < comp.len() && 0 <= t < ms.len() && #[trigger] mutual(comp[i], ms[t], acc_all(), ao) implies exists|j: int| 0 <= j < comp.len() && (#[trigger] comp[j]).k() == ms[t].k() by {
        lemma_reach0_trans(x, comp[i], ms[t].k(), acc_all(), ao);
        lemma_reach0_trans(ms[t], comp[i], x.k(), acc_all(), ao);
        lemma_pass2_max(ms, mk, m, a, cs, x, t);
    }
    assert(all_uni(comp) && distinct_keys(comp));
    assert(is_scc(comp, ms, ao));
    assert forall|i: int| 0 <= i < cs2.len() implies is_scc(#[trigger] cs2[i], ms, ao) by {
        if i < n { assert(cs2[i] == cs[i]); }
    }
    // bookkeeping of the key set
    assert forall|k: K| a2.contains(k) <==> exists|i: int, j: int| 0 <= i < cs2.len() && 0 <= j < cs2[i].len() && (#[trigger] cs2[i][j]).k() == k by {
        if a.contains(k) {
            let (i, j) = choose|i: int, j: int| 0 <= i < cs.len() && 0 <= j < cs[i].len() && (#[trigger] cs[i][j]).k() == k;
            assert(cs2[i][j] == cs[i][j]);
        } else if exists|i: int| 0 <= i < comp.len() && (#[trigger] comp[i]).k() == k {
            let i = choose|i: int| 0 <= i < comp.len() && (#[trigger] comp[i]).k() == k;
            assert(cs2[n][i] == comp[i]);
        }
        if exists|i: int, j: int| 0 <= i < cs2.len() && 0 <= j < cs2[i].len() && (#[trigger] cs2[i][j]).k() == k {
            let (i, j) = choose|i: int, j: int| 0 <= i < cs2.len() && 0 <= j < cs2[i].len() && (#[trigger] cs2[i][j]).k() == k;
            if i < n { assert(cs2[i] == cs[i]); assert(cs[i][j].k() == k); } else { assert(cs2[i] == comp); assert(comp[j].k() == k); }
        }
    }
    assert forall|i1: int, j1: int, i2: int, j2: int| 0 <= i1 < i2 < cs2.len() && 0 <= j1 < cs2[i1].len() && 0 <= j2 < cs2[i2].len() implies (#[trigger] cs2[i1][j1]).k() != (#[trigger] cs2[i2][j2]).k() by {
        assert(cs2[i1] == cs[i1]);
        if i2 < n { assert(cs2[i2] == cs[i2]); }
        else { assert(cs2[i2] == comp); assert(a.contains(cs[i1][j1].k())); }
    }
    // x itself is found
    assert(reach0(x, x.k(), acc_excl(a), adj_in::<K, N, E>()));
    let xi = choose|xi: int| 0 <= xi < comp.len() && (#[trigger] comp[xi]).k() == x.k();
    assert forall|t: int| m - 1 <= t < ms.len() implies a2.contains((#[trigger] ms[t]).k()) by {}
}
