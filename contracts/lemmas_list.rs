// ===== lemmas_list.rs : pure list vocabulary (DESIGN §4). No gdsl code. =====

// index of the first entry whose peer key is k, or -1
pub open spec fn first_idx<K, E>(s: Seq<(K, E)>, k: K) -> int
    decreases s.len()
{
    if s.len() == 0 { -1 } else if s[0].0 == k { 0 } else { let r = first_idx(s.drop_first(), k); if r < 0 { -1 } else { r + 1 } }
}

// values of the entries whose peer key is k, in list order
pub open spec fn proj<K, E>(s: Seq<(K, E)>, k: K) -> Seq<E>
    decreases s.len()
{
    if s.len() == 0 { Seq::empty() } else if s[0].0 == k { seq![s[0].1] + proj(s.drop_first(), k) } else { proj(s.drop_first(), k) }
}

pub proof fn lemma_first_idx<K, E>(s: Seq<(K, E)>, k: K, i: int)
    requires 0 <= i <= s.len(), forall|j: int| 0 <= j < i ==> (#[trigger] s[j]).0 != k
    ensures i < s.len() && s[i].0 == k ==> first_idx(s, k) == i,
            i == s.len() ==> first_idx(s, k) == -1
    decreases s.len()
{
    if s.len() == 0 {
    } else if i == 0 {
    } else {
        let t = s.drop_first();
        assert forall|j: int| 0 <= j < i - 1 implies (#[trigger] t[j]).0 != k by { assert(t[j] == s[j + 1]); }
        lemma_first_idx(t, k, i - 1);
        if i < s.len() { assert(t[i - 1] == s[i]); }
    }
}

// characterisation of first_idx
pub proof fn lemma_first_idx_props<K, E>(s: Seq<(K, E)>, k: K)
    ensures
        -1 <= first_idx(s, k) < s.len(),
        first_idx(s, k) >= 0 ==> s[first_idx(s, k)].0 == k,
        forall|j: int| 0 <= j < s.len() && (first_idx(s, k) < 0 || j < first_idx(s, k)) ==> (#[trigger] s[j]).0 != k,
    decreases s.len()
{
    if s.len() == 0 {
    } else if s[0].0 == k {
    } else {
        let t = s.drop_first();
        lemma_first_idx_props(t, k);
        assert forall|j: int| 0 <= j < s.len() && (first_idx(s, k) < 0 || j < first_idx(s, k)) implies (#[trigger] s[j]).0 != k by {
            if j > 0 { assert(t[j - 1] == s[j]); }
        }
    }
}

pub proof fn lemma_proj_first<K, E>(s: Seq<(K, E)>, k: K)
    ensures first_idx(s, k) >= 0 <==> proj(s, k).len() > 0,
        first_idx(s, k) >= 0 ==> 0 <= first_idx(s, k) < s.len() && s[first_idx(s, k)].1 == proj(s, k)[0] && s[first_idx(s, k)].0 == k,
    decreases s.len()
{
    if s.len() == 0 {
    } else if s[0].0 == k {
    } else {
        lemma_proj_first(s.drop_first(), k);
    }
}

pub proof fn lemma_proj_push<K, E>(s: Seq<(K, E)>, x: (K, E), k: K)
    ensures proj(s.push(x), k) == if x.0 == k { proj(s, k).push(x.1) } else { proj(s, k) }
    decreases s.len()
{
    if s.len() == 0 {
        let sp = s.push(x);
        assert(sp.drop_first() =~= Seq::<(K, E)>::empty());
        assert(sp[0] == x);
        assert(proj(sp.drop_first(), k) =~= Seq::<E>::empty());
        assert(proj(s, k) =~= Seq::<E>::empty());
        if x.0 == k {
            assert(proj(sp, k) =~= seq![x.1] + Seq::<E>::empty());
            assert(proj(sp, k) =~= seq![x.1]);
            assert(proj(s, k).push(x.1) =~= seq![x.1]);
        }
    } else {
        assert(s.push(x).drop_first() =~= s.drop_first().push(x));
        lemma_proj_push(s.drop_first(), x, k);
        if s[0].0 == k {
            if x.0 == k {
                assert(seq![s[0].1] + proj(s.drop_first(), k).push(x.1) =~= (seq![s[0].1] + proj(s.drop_first(), k)).push(x.1));
            }
        }
    }
}

// removing the entry at index i
pub proof fn lemma_proj_remove_at<K, E>(s: Seq<(K, E)>, i: int, k: K)
    requires 0 <= i < s.len()
    ensures s[i].0 != k ==> proj(s.remove(i), k) == proj(s, k),
            s[i].0 == k && first_idx(s, k) == i ==> proj(s.remove(i), k) == proj(s, k).drop_first(),
    decreases s.len()
{
    if i == 0 {
        assert(s.remove(0) =~= s.drop_first());
        if s[0].0 == k {
            assert((seq![s[0].1] + proj(s.drop_first(), k)).drop_first() =~= proj(s.drop_first(), k));
        }
    } else {
        let t = s.drop_first();
        assert(s.remove(i).drop_first() =~= t.remove(i - 1));
        assert(s.remove(i)[0] == s[0]);
        assert(t[i - 1] == s[i]);
        lemma_proj_remove_at(t, i - 1, k);
        if s[i].0 == k && first_idx(s, k) == i {
            // first_idx(s,k) == i > 0 means s[0].0 != k and first_idx(t,k) == i-1
            assert(s[0].0 != k);
            assert(first_idx(t, k) == i - 1);
        } else if s[i].0 != k {
            if s[0].0 == k {
            }
        }
    }
}

pub proof fn lemma_proj_remove<K, E>(s: Seq<(K, E)>, k: K, k2: K)
    requires first_idx(s, k) >= 0
    ensures proj(s.remove(first_idx(s, k)), k) == proj(s, k).drop_first(),
        k2 != k ==> proj(s.remove(first_idx(s, k)), k2) == proj(s, k2),
{
    lemma_first_idx_props(s, k);
    lemma_proj_remove_at(s, first_idx(s, k), k);
    lemma_proj_remove_at(s, first_idx(s, k), k2);
}

pub proof fn lemma_proj_empty<K, E>(k: K)
    ensures proj(Seq::<(K, E)>::empty(), k) == Seq::<E>::empty()
{}

// no entry with key k  <=>  proj is empty
pub proof fn lemma_proj_none<K, E>(s: Seq<(K, E)>, k: K)
    ensures (forall|j: int| 0 <= j < s.len() ==> (#[trigger] s[j]).0 != k) <==> proj(s, k).len() == 0
    decreases s.len()
{
    if s.len() == 0 {
    } else {
        let t = s.drop_first();
        lemma_proj_none(t, k);
        if s[0].0 == k {
        } else {
            if forall|j: int| 0 <= j < t.len() ==> (#[trigger] t[j]).0 != k {
                assert forall|j: int| 0 <= j < s.len() implies (#[trigger] s[j]).0 != k by {
                    if j > 0 { assert(t[j - 1] == s[j]); }
                }
            } else {
                let j = choose|j: int| 0 <= j < t.len() && (#[trigger] t[j]).0 == k;
                assert(s[j + 1] == t[j]);
            }
        }
    }
}

// length of a list is the sum of its projections: only needed in counting form
pub proof fn lemma_proj_len_le<K, E>(s: Seq<(K, E)>, k: K)
    ensures proj(s, k).len() <= s.len()
    decreases s.len()
{
    if s.len() > 0 { lemma_proj_len_le(s.drop_first(), k); }
}

pub proof fn lemma_proj_concat<K, E>(a: Seq<(K, E)>, b: Seq<(K, E)>, k: K)
    ensures proj(a + b, k) == proj(a, k) + proj(b, k)
    decreases a.len()
{
    if a.len() == 0 {
        assert(a + b =~= b);
        assert(proj(a, k) + proj(b, k) =~= proj(b, k));
    } else {
        assert((a + b).drop_first() =~= a.drop_first() + b);
        lemma_proj_concat(a.drop_first(), b, k);
        if a[0].0 == k {
            assert(seq![a[0].1] + (proj(a.drop_first(), k) + proj(b, k)) =~= (seq![a[0].1] + proj(a.drop_first(), k)) + proj(b, k));
        }
    }
}
