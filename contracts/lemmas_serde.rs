// ===== lemmas_serde.rs : rebuild(decompose(G)) is G again (C12). Pure; no gdsl code. =====

// what decompose writes for the edges of node k: its out-list as (source, target, value) triples
pub open spec fn triples_of<K, E>(g: GS<K, E>, k: K) -> Seq<(K, K, E)> {
    g.out[k].map_values(|ve: (K, E)| (k, ve.0, ve.1))
}
// ... for the members in the order the container iterates them
pub open spec fn flat_g<K, E>(g: GS<K, E>, order: Seq<K>) -> Seq<(K, K, E)>
    decreases order.len()
{
    if order.len() == 0 { Seq::empty() } else { flat_g(g, order.drop_last()) + triples_of(g, order.last()) }
}
// the (target, value) entries of the edges whose source is a, in order
pub open spec fn src_proj<K, E>(edges: Seq<(K, K, E)>, a: K) -> Seq<(K, E)>
    decreases edges.len()
{
    if edges.len() == 0 { Seq::empty() } else {
        let r = src_proj(edges.drop_last(), a);
        if edges.last().0 == a { r.push((edges.last().1, edges.last().2)) } else { r }
    }
}

pub proof fn lemma_src_proj_concat<K, E>(x: Seq<(K, K, E)>, y: Seq<(K, K, E)>, a: K)
    ensures src_proj(x + y, a) == src_proj(x, a) + src_proj(y, a)
    decreases y.len()
{
    if y.len() == 0 {
        assert(x + y =~= x);
        assert(src_proj(x, a) + src_proj(y, a) =~= src_proj(x, a));
    } else {
        assert((x + y).drop_last() =~= x + y.drop_last());
        assert((x + y).last() == y.last());
        lemma_src_proj_concat(x, y.drop_last(), a);
        if y.last().0 == a {
            assert((src_proj(x, a) + src_proj(y.drop_last(), a)).push((y.last().1, y.last().2)) =~= src_proj(x, a) + src_proj(y.drop_last(), a).push((y.last().1, y.last().2)));
        }
    }
}

pub proof fn lemma_src_proj_triples<K, E>(g: GS<K, E>, k: K, a: K, n: int)
    requires 0 <= n <= g.out[k].len()
    ensures src_proj(triples_of(g, k).take(n), a) == if k == a { g.out[k].take(n) } else { Seq::<(K, E)>::empty() }
    decreases n
{
    let t = triples_of(g, k).take(n);
    if n == 0 {
        assert(g.out[k].take(0) =~= Seq::<(K, E)>::empty());
    } else {
        lemma_src_proj_triples(g, k, a, n - 1);
        assert(t.drop_last() =~= triples_of(g, k).take(n - 1));
        assert(t.last() == (k, g.out[k][n - 1].0, g.out[k][n - 1].1));
        if k == a {
            assert(g.out[k].take(n) =~= g.out[k].take(n - 1).push(g.out[k][n - 1]));
        }
    }
}

pub proof fn lemma_src_proj_flat<K, E>(g: GS<K, E>, order: Seq<K>, a: K)
    requires order.no_duplicates()
    ensures src_proj(flat_g(g, order), a) == if order.contains(a) { g.out[a] } else { Seq::<(K, E)>::empty() }
    decreases order.len()
{
    if order.len() > 0 {
        let p = order.drop_last();
        let k = order.last();
        assert(p.no_duplicates());
        lemma_src_proj_flat(g, p, a);
        lemma_src_proj_concat(flat_g(g, p), triples_of(g, k), a);
        lemma_src_proj_triples(g, k, a, g.out[k].len() as int);
        assert(triples_of(g, k).take(g.out[k].len() as int) =~= triples_of(g, k));
        assert(g.out[k].take(g.out[k].len() as int) =~= g.out[k]);
        if k == a {
            assert(!p.contains(a)) by {
                if p.contains(a) { let i = choose|i: int| 0 <= i < p.len() && p[i] == a; assert(order[i] == a); assert(order[order.len() - 1] == a); }
            }
            assert(order.contains(a)) by { assert(order[order.len() - 1] == a); }
            assert(Seq::<(K, E)>::empty() + g.out[a] =~= g.out[a]);
        } else {
            assert(order.contains(a) == p.contains(a)) by {
                if order.contains(a) { let i = choose|i: int| 0 <= i < order.len() && order[i] == a; assert(i < p.len()); assert(p[i] == a); }
                if p.contains(a) { let i = choose|i: int| 0 <= i < p.len() && p[i] == a; assert(order[i] == a); }
            }
            if p.contains(a) { assert(g.out[a] + Seq::<(K, E)>::empty() =~= g.out[a]); }
        }
    }
}

// connecting a list of edges only appends, per source, the listed (target, value) entries
pub proof fn lemma_fold_out<K, E>(g0: GS<K, E>, edges: Seq<(K, K, E)>, a: K)
    requires g_fold(g0, edges).is_some(), g0.dom().contains(a), g0.out.dom() == g0.inn.dom()
    ensures g_fold(g0, edges).unwrap().out[a] == g0.out[a] + src_proj(edges, a),
        g_fold(g0, edges).unwrap().out.dom() == g0.out.dom(),
    decreases edges.len()
{
    if edges.len() == 0 {
        assert(g0.out[a] + Seq::<(K, E)>::empty() =~= g0.out[a]);
    } else {
        let h = g_fold(g0, edges.drop_last()).unwrap();
        lemma_fold_out(g0, edges.drop_last(), a);
        let e = edges.last();
        assert(g_connect(h, e.0, e.1, e.2).out.dom() =~= h.out.dom());
        if e.0 == a {
            assert((g0.out[a] + src_proj(edges.drop_last(), a)).push((e.1, e.2)) =~= g0.out[a] + src_proj(edges.drop_last(), a).push((e.1, e.2)));
        }
    }
}

// every edge of a well-formed graph connects members, so the fold does not fail
pub proof fn lemma_fold_flat_ok<K, E>(g: GS<K, E>, order: Seq<K>, g0: GS<K, E>)
    requires g.wf(), g0.inv(), g0.dom() == g.dom(), forall|i: int| 0 <= i < order.len() ==> g.dom().contains(#[trigger] order[i])
    ensures g_fold(g0, flat_g(g, order)).is_some()
{
    let edges = flat_g(g, order);
    lemma_flat_members(g, order);
    lemma_fold_members_ok(g0, edges);
}

pub proof fn lemma_flat_members<K, E>(g: GS<K, E>, order: Seq<K>)
    requires g.wf(), forall|i: int| 0 <= i < order.len() ==> g.dom().contains(#[trigger] order[i])
    ensures forall|j: int| 0 <= j < flat_g(g, order).len() ==> g.dom().contains((#[trigger] flat_g(g, order)[j]).0) && g.dom().contains(flat_g(g, order)[j].1)
    decreases order.len()
{
    if order.len() > 0 {
        let p = order.drop_last();
        let k = order.last();
        assert forall|i: int| 0 <= i < p.len() implies g.dom().contains(#[trigger] p[i]) by { assert(p[i] == order[i]); }
        lemma_flat_members(g, p);
        let f = flat_g(g, order);
        let fp = flat_g(g, p);
        assert(g.dom().contains(order[order.len() - 1]));
        assert forall|j: int| 0 <= j < f.len() implies g.dom().contains((#[trigger] f[j]).0) && g.dom().contains(f[j].1) by {
            if j < fp.len() { assert(f[j] == fp[j]); }
            else {
                let m = j - fp.len();
                assert(f[j] == triples_of(g, k)[m]);
                assert(g.dom().contains(g.out[k][m].0));
            }
        }
    }
}

pub proof fn lemma_fold_members_ok<K, E>(g0: GS<K, E>, edges: Seq<(K, K, E)>)
    requires g0.inv(), forall|j: int| 0 <= j < edges.len() ==> g0.dom().contains((#[trigger] edges[j]).0) && g0.dom().contains(edges[j].1)
    ensures g_fold(g0, edges).is_some()
    decreases edges.len()
{
    if edges.len() > 0 {
        let p = edges.drop_last();
        assert forall|j: int| 0 <= j < p.len() implies g0.dom().contains((#[trigger] p[j]).0) && g0.dom().contains(p[j].1) by { assert(p[j] == edges[j]); }
        lemma_fold_members_ok(g0, p);
        lemma_fold_inv(g0, p);
        assert(g0.dom().contains(edges[edges.len() - 1].0));
    }
}

// C12: deserialising what was serialised gives the same graph: same members, for every node the
// same out-list (same edges, values, order), and per ordered pair of nodes the same sequence of
// inbound values -- hence the same multiset of inbound (undirected: peer-created) entries.
pub proof fn lemma_roundtrip<K, N, E>(g: GS<K, E>, order: Seq<K>, nodes: Seq<(K, N)>)
    requires
        g.inv(),
        order.no_duplicates(), order.to_set() == g.dom(),          // the container yields every member once
        nodes.map_values(|kv: (K, N)| kv.0) == order,              // decompose lists the members in that order
    ensures ({
        let r = g_fold(g_empty::<K, E>(doc_keys(nodes)), flat_g(g, order));
        &&& r.is_some()
        &&& r.unwrap().inv()
        &&& r.unwrap().dom() == g.dom()
        &&& forall|u: K| g.dom().contains(u) ==> #[trigger] r.unwrap().out[u] == g.out[u]
        &&& forall|u: K, v: K| g.dom().contains(u) && g.dom().contains(v) ==> #[trigger] proj(r.unwrap().inn[v], u) == proj(g.inn[v], u)
        &&& forall|u: K, v: K, e: E| g.dom().contains(u) && g.dom().contains(v) ==> #[trigger] count_kv(r.unwrap().inn[v], u, e) == count_kv(g.inn[v], u, e)
    })
{
    let keys = doc_keys(nodes);
    assert(keys == g.dom());
    let g0 = g_empty::<K, E>(keys);
    lemma_empty_inv::<K, E>(keys);
    assert forall|i: int| 0 <= i < order.len() implies g.dom().contains(#[trigger] order[i]) by { assert(order.contains(order[i])); }
    lemma_fold_flat_ok(g, order, g0);
    let edges = flat_g(g, order);
    lemma_fold_inv(g0, edges);
    let h = g_fold(g0, edges).unwrap();
    assert forall|u: K| g.dom().contains(u) implies #[trigger] h.out[u] == g.out[u] by {
        lemma_fold_out(g0, edges, u);
        lemma_src_proj_flat(g, order, u);
        assert(order.contains(u));
        assert(Seq::<(K, E)>::empty() + g.out[u] =~= g.out[u]);
    }
    assert forall|u: K, v: K| g.dom().contains(u) && g.dom().contains(v) implies #[trigger] proj(h.inn[v], u) == proj(g.inn[v], u) by {
        assert(proj(h.out[u], v) == proj(h.inn[v], u));
        assert(proj(g.out[u], v) == proj(g.inn[v], u));
        assert(h.out[u] == g.out[u]);
    }
    assert forall|u: K, v: K, e: E| g.dom().contains(u) && g.dom().contains(v) implies #[trigger] count_kv(h.inn[v], u, e) == count_kv(g.inn[v], u, e) by {
        assert(proj(h.inn[v], u) == proj(g.inn[v], u));
        lemma_count_proj(h.inn[v], u, e);
        lemma_count_proj(g.inn[v], u, e);
    }
}
