// Oracle program for C18 (DOT exports): a search for a failing input, used only to confirm a refutation whose loop
// invariants were written for another text (DESIGN 3.6 ii).  Small graphs (self-loop, parallel edges, isolated member,
// antiparallel pair), callbacks answering None / Some(empty) / Some(one) / Some(two) depending asymmetrically on their
// arguments; the expected text is built from an edge-list model kept beside the graph.  Member order is the
// container's, so statements are compared as blocks / multisets in the positions the statement fixes.
use std::collections::BTreeMap;

type Attrs = Option<Vec<(String, String)>>;

fn fmt_attrs(a: &[(String, String)]) -> String {
    a.iter().map(|(k, v)| format!("[{}=\"{}\"]", k, v)).collect::<String>()
}
fn nattr_model(k: u32) -> Attrs {
    match k % 4 {
        0 => None,
        1 => Some(vec![]),
        2 => Some(vec![("label".into(), format!("n{}", k))]),
        _ => Some(vec![("label".into(), format!("n{}", k)), ("shape".into(), "box".into())]),
    }
}
fn eattr_model(u: u32, v: u32, e: u32) -> Attrs {
    if (u + 2 * v + e) % 3 == 0 {
        None
    } else if u > v {
        Some(vec![("label".into(), format!("{}>{}:{}", u, v, e)), ("color".into(), "red".into())])
    } else {
        Some(vec![("label".into(), format!("{}<={}:{}", u, v, e))])
    }
}
fn sorted(mut v: Vec<String>) -> Vec<String> { v.sort(); v }
fn fail(msg: String) -> ! { println!("VIOLATION: {}", msg); std::process::exit(1) }

// edges: (creator, other, value) in creation order; adj(k): the edges iterating member k yields, in order
fn adj(directed: bool, edges: &[(u32, u32, u32)], k: u32) -> Vec<(u32, u32, u32)> {
    let mut out: Vec<(u32, u32, u32)> = edges.iter().filter(|(u, _, _)| *u == k).map(|&(u, v, e)| (u, v, e)).collect();
    if !directed {
        out.extend(edges.iter().filter(|(_, v, _)| *v == k).map(|&(u, _, e)| (k, u, e)));
    }
    out
}

fn check_plain(tag: &str, directed: bool, keys: &[u32], edges: &[(u32, u32, u32)], text: &str) {
    // expected blocks: "    k" + for each edge "\n    k -> v", each block ends with "\n"
    let mut exp: Vec<String> = keys.iter().map(|&k| {
        let mut b = format!("    {}", k);
        for (_, v, _) in adj(directed, edges, k) { b.push_str(&format!("\n    {} -> {}", k, v)); }
        b.push('\n');
        b
    }).collect();
    if !text.starts_with("digraph {\n") || !text.ends_with('}') { fail(format!("{}: to_dot: header / footer wrong: {:?}", tag, text)); }
    let body = &text["digraph {\n".len()..text.len() - 1];
    // split the body into blocks at lines that are a bare key
    let mut blocks: Vec<String> = vec![];
    for line in body.split_inclusive('\n') {
        if !line.contains("->") { blocks.push(String::new()); }
        match blocks.last_mut() { Some(b) => b.push_str(line), None => fail(format!("{}: to_dot: edge line before any node line: {:?}", tag, text)) }
    }
    // re-join with the model's shape: a block is "    k\n" or "    k\n    k -> v\n..." where the model writes the newline first
    let norm = |b: &String| b.trim_end_matches('\n').to_string();
    exp.sort();
    let got = sorted(blocks.iter().map(norm).collect());
    let want = sorted(exp.iter().map(norm).collect());
    if got != want || body.len() != exp.iter().map(|b| b.len()).sum::<usize>() {
        fail(format!("{}: to_dot text differs from the model: got {:?}, expected blocks {:?}", tag, text, want));
    }
}

fn check_attr(tag: &str, directed: bool, keys: &[u32], edges: &[(u32, u32, u32)], gattr: &Attrs, text: &str) {
    let mut lines: Vec<&str> = text.split('\n').collect();
    if lines.first() != Some(&"digraph {") || lines.last() != Some(&"}") { fail(format!("{}: with_attr: header / footer wrong: {:?}", tag, text)); }
    lines.remove(0); lines.pop();
    let glines: Vec<String> = gattr.clone().unwrap_or_default().iter().map(|(k, v)| format!("\t{}=\"{}\"", k, v)).collect();
    if lines.len() < glines.len() || lines[..glines.len()].iter().map(|s| s.to_string()).collect::<Vec<_>>() != glines {
        fail(format!("{}: with_attr: graph attribute lines wrong: {:?}", tag, text));
    }
    let rest = &lines[glines.len()..];
    let nstm: Vec<String> = keys.iter().map(|&k| match nattr_model(k) {
        Some(a) => format!("\t{} {}", k, fmt_attrs(&a)), None => format!("\t{}", k) }).collect();
    if rest.len() < nstm.len() { fail(format!("{}: with_attr: fewer lines than members: {:?}", tag, text)); }
    let got_n = sorted(rest[..nstm.len()].iter().map(|s| s.to_string()).collect());
    if got_n != sorted(nstm.clone()) { fail(format!("{}: with_attr: node statements {:?}, expected {:?}", tag, got_n, sorted(nstm))); }
    // edge statements: per member a contiguous run in that member's iteration order; compare the multiset of runs
    let run_of = |k: u32| -> Vec<String> { adj(directed, edges, k).iter().map(|&(u, v, e)| match eattr_model(u, v, e) {
        Some(a) => format!("\t{} -> {} {}", u, v, fmt_attrs(&a)), None => format!("\t{} -> {}", u, v) }).collect() };
    let mut want_runs: BTreeMap<u32, Vec<String>> = BTreeMap::new();
    for &k in keys { want_runs.insert(k, run_of(k)); }
    let elines: Vec<String> = rest[nstm.len()..].iter().map(|s| s.to_string()).collect();
    let total: usize = want_runs.values().map(|r| r.len()).sum();
    if elines.len() != total { fail(format!("{}: with_attr: {} edge statements, expected {}: {:?}", tag, elines.len(), total, text)); }
    let mut i = 0;
    let mut seen: Vec<u32> = vec![];
    while i < elines.len() {
        let src: u32 = elines[i].trim_start_matches('\t').split(' ').next().unwrap().parse().unwrap_or_else(|_| fail(format!("{}: with_attr: bad edge line {:?}", tag, elines[i])));
        let run = want_runs.get(&src).cloned().unwrap_or_default();
        if seen.contains(&src) || run.is_empty() || i + run.len() > elines.len() || elines[i..i + run.len()] != run[..] {
            fail(format!("{}: with_attr: edge statements of member {} are {:?}..., expected {:?}", tag, src, &elines[i..(i + run.len()).min(elines.len())], run));
        }
        seen.push(src);
        i += run.len();
    }
}

macro_rules! flavour {
    ($name:ident, $m:ident, $directed:expr, $attr:tt) => {
        fn $name() {
            use gdsl::$m::*;
            let shapes: Vec<(Vec<u32>, Vec<(u32, u32, u32)>)> = vec![
                (vec![], vec![]),
                (vec![7], vec![]),
                (vec![4], vec![(4, 4, 9)]),
                (vec![1, 2], vec![(1, 2, 5), (2, 1, 6)]),
                (vec![0, 1, 2, 3], vec![(0, 1, 1), (0, 1, 2), (1, 2, 3), (2, 2, 4), (3, 0, 5), (2, 0, 6)]),
                (vec![5, 6, 10, 11, 12], vec![(6, 5, 1), (10, 5, 2), (5, 11, 3), (11, 10, 4), (6, 10, 7)]),
            ];
            for (keys, edges) in shapes.iter() {
                let mut g: Graph<u32, u32, u32> = Graph::new();
                for &k in keys { g.insert(Node::new(k, k * 10)); }
                for &(u, v, e) in edges { g[u].connect(&g[v], e); }
                let tag = format!("{} keys {:?} edges {:?}", stringify!($m), keys, edges);
                check_plain(&tag, $directed, keys, edges, &g.to_dot());
                flavour!(@attr $attr, g, tag, $directed, keys, edges);
            }
        }
    };
    (@attr yes, $g:ident, $tag:ident, $directed:expr, $keys:ident, $edges:ident) => {
        for gattr in [None, Some(vec![]), Some(vec![("rankdir".to_string(), "LR".to_string()), ("label".to_string(), "g".to_string())])] {
            let ga = gattr.clone();
            let text = $g.to_dot_with_attr(
                &|_| ga.clone(),
                &|n| nattr_model(*n.key()),
                &|u, v, e| eattr_model(*u.key(), *v.key(), *e),
            );
            check_attr(&$tag, $directed, $keys, $edges, &gattr, &text);
        }
    };
    (@attr no, $g:ident, $tag:ident, $directed:expr, $keys:ident, $edges:ident) => {};
}
flavour!(t_digraph, digraph, true, yes);
flavour!(t_sync_digraph, sync_digraph, true, yes);
flavour!(t_ungraph, ungraph, false, yes);
flavour!(t_sync_ungraph, sync_ungraph, false, no);

fn main() {
    t_digraph();
    t_sync_digraph();
    t_ungraph();
    t_sync_ungraph();
    println!("OK");
}
