fn main(){
    {
        use gdsl::ungraph::*;
        let mut g: Graph<usize, u32, u32> = Graph::new();
        for i in 0..3 { g.insert(Node::new(i, 10 + i as u32)); }
        g[0].connect(&g[1], 5); g[1].connect(&g[0], 6); g[1].connect(&g[2], 7); g[2].connect(&g[2], 8); g[0].connect(&g[1], 5);
        let js = serde_json::to_string(&g).unwrap();
        let h: Graph<usize, u32, u32> = serde_json::from_str(&js).unwrap();
        assert_eq!(h.len(), 3);
        for i in 0..3 {
            assert_eq!(*h[i].value(), 10 + i as u32);
            assert_eq!(h[i].degree(), g[i].degree(), "degree of {} changed on round trip", i);
            let mut a: Vec<(usize,u32)> = g[i].iter().map(|e| (*e.1.key(), e.2)).collect();
            let mut b: Vec<(usize,u32)> = h[i].iter().map(|e| (*e.1.key(), e.2)).collect();
            a.sort(); b.sort();
            assert_eq!(a, b, "incident edges of {} differ", i);
        }
    }
    {
        use gdsl::sync_ungraph::*;
        let mut g: Graph<usize, u32, u32> = Graph::new();
        for i in 0..2 { g.insert(Node::new(i, 0)); }
        g[0].connect(&g[1], 5);
        let js = serde_json::to_string(&g).unwrap();
        let h: Graph<usize, u32, u32> = serde_json::from_str(&js).unwrap();
        assert_eq!(h[0].degree(), 1); assert_eq!(h[1].degree(), 1);
    }
    println!("D11 ok");
}
