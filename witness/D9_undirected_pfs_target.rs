fn main(){
    {
        use gdsl::ungraph::*;
        let n: Vec<Node<usize,u32,u32>> = (0..3).map(|i| Node::new(i, i as u32)).collect();
        n[0].connect(&n[1], 5); n[1].connect(&n[2], 6);
        for mode in 0..2 {
            // adjacent target: used to panic in backtrack_edge_tree (empty edge tree)
            let p = if mode==0 { n[0].pfs().min().target(&1).search_path() } else { n[0].pfs().max().target(&1).search_path() };
            let p = p.expect("adjacent target must be found").to_vec_edges();
            assert_eq!(p.iter().map(|e| (*e.0.key(), *e.1.key(), e.2)).collect::<Vec<_>>(), vec![(0,1,5)]);
            // two hops: used to return the truncated path [(0,1)]
            let p = if mode==0 { n[0].pfs().min().target(&2).search_path() } else { n[0].pfs().max().target(&2).search_path() };
            let p = p.unwrap().to_vec_edges();
            assert_eq!(p.iter().map(|e| (*e.0.key(), *e.1.key(), e.2)).collect::<Vec<_>>(), vec![(0,1,5),(1,2,6)], "path must end at the target");
            let t = if mode==0 { n[0].pfs().min().target(&2).search() } else { n[0].pfs().max().target(&2).search() };
            assert_eq!(*t.unwrap().key(), 2);
        }
    }
    {
        use gdsl::sync_ungraph::*;
        let n: Vec<Node<usize,u32,u32>> = (0..3).map(|i| Node::new(i, i as u32)).collect();
        n[0].connect(&n[1], 5); n[1].connect(&n[2], 6);
        let p = n[0].pfs().target(&2).search_path().unwrap().to_vec_edges();
        assert_eq!(p.len(), 2);
        assert_eq!(*n[0].pfs().target(&1).search().unwrap().key(), 1);
    }
    println!("D9 ok");
}
