fn keys_d(v: Vec<gdsl::digraph::Node<usize,(),()>>) -> Vec<usize> { v.iter().map(|n| *n.key()).collect() }
fn keys_s(v: Vec<gdsl::sync_digraph::Node<usize,(),()>>) -> Vec<usize> { v.iter().map(|n| *n.key()).collect() }
fn main(){
    let which = std::env::args().nth(1).unwrap_or("all".into());
    if which == "D6" || which == "all" {
        use gdsl::digraph::*;
        // tree 0->1, 0->2, 1->3
        let n: Vec<Node<usize,(),()>> = (0..4).map(|i| Node::new(i, ())).collect();
        n[0].connect(&n[1], ()); n[0].connect(&n[2], ()); n[1].connect(&n[3], ());
        let po = keys_d(n[0].postorder().search_nodes());
        assert_eq!(po.len(), 4, "D6: digraph postorder() must follow outgoing edges, got {:?}", po);
        assert_eq!(*po.last().unwrap(), 0);
    }
    if which == "D7" || which == "all" {
        {
            use gdsl::sync_digraph::*;
            let n: Vec<Node<usize,(),()>> = (0..4).map(|i| Node::new(i, ())).collect();
            n[0].connect(&n[1], ()); n[0].connect(&n[2], ()); n[1].connect(&n[3], ());
            let po = keys_s(n[0].postorder().search_nodes());
            assert_eq!(po, vec![3,1,2,0], "D7: postorder must list a node after its descendants");
            let pe: Vec<(usize,usize)> = n[0].postorder().search_edges().iter().map(|e| (*e.0.key(), *e.1.key())).collect();
            assert_eq!(pe, vec![(1,3),(0,1),(0,2)]);
        }
        {
            use gdsl::digraph::*;
            let n: Vec<Node<usize,(),()>> = (0..4).map(|i| Node::new(i, ())).collect();
            n[0].connect(&n[1], ()); n[0].connect(&n[2], ()); n[1].connect(&n[3], ());
            // use transpose-free API path that is unaffected by D6: preorder stays preorder
            let pr = keys_d(n[0].preorder().search_nodes());
            assert_eq!(pr, vec![0,1,3,2]);
            let po = keys_d(n[3].postorder().transpose().search_nodes());
            assert_eq!(po, vec![0,1,3], "D7: transposed postorder from 3: 3<-1<-0 finishes 0,1,3");
        }
    }
    if which == "D8" || which == "all" {
        {
            use gdsl::ungraph::*;
            let n: Vec<Node<usize,(),()>> = (0..3).map(|i| Node::new(i, ())).collect();
            n[0].connect(&n[1], ()); n[1].connect(&n[2], ());
            let pr: Vec<usize> = n[0].order().pre().search_nodes().iter().map(|x| *x.key()).collect();
            assert_eq!(pr, vec![0,1,2], "D8: undirected preorder must reach the whole component");
            let pe: Vec<(usize,usize)> = n[0].order().pre().search_edges().iter().map(|e| (*e.0.key(), *e.1.key())).collect();
            assert_eq!(pe, vec![(0,1),(1,2)]);
            let po: Vec<usize> = n[0].order().post().search_nodes().iter().map(|x| *x.key()).collect();
            assert_eq!(po, vec![2,1,0]);
        }
        {
            use gdsl::sync_ungraph::*;
            let n: Vec<Node<usize,(),()>> = (0..3).map(|i| Node::new(i, ())).collect();
            n[0].connect(&n[1], ()); n[1].connect(&n[2], ());
            let pr: Vec<usize> = n[0].order().pre().search_nodes().iter().map(|x| *x.key()).collect();
            assert_eq!(pr, vec![0,1,2]);
        }
    }
    println!("{} ok", which);
}
