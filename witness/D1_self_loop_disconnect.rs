fn main(){
    {
        use gdsl::digraph::*;
        let a = Node::<usize,(),u32>::new(1,());
        let b = Node::<usize,(),u32>::new(2,());
        a.connect(&a, 7); a.connect(&b, 8); a.connect(&a, 9);
        assert_eq!(a.disconnect(a.key()).unwrap(), 7);
        assert_eq!(a.out_degree(), 2); assert_eq!(a.in_degree(), 1);
        assert_eq!(a.disconnect(a.key()).unwrap(), 9);
        assert!(a.disconnect(a.key()).is_err());
        assert_eq!(a.disconnect(b.key()).unwrap(), 8);
        assert!(b.is_orphan() && a.is_orphan());
    }
    {
        use gdsl::sync_digraph::*;
        let a = Node::<usize,(),u32>::new(1,());
        let b = Node::<usize,(),u32>::new(2,());
        a.connect(&a, 7); a.connect(&b, 8); a.connect(&a, 9);
        assert_eq!(a.disconnect(a.key()).unwrap(), 7);
        assert_eq!(a.out_degree(), 2); assert_eq!(a.in_degree(), 1);
        assert_eq!(a.disconnect(a.key()).unwrap(), 9);
        assert!(a.disconnect(a.key()).is_err());
        assert_eq!(a.disconnect(b.key()).unwrap(), 8);
        assert!(b.is_orphan() && a.is_orphan());
    }
    println!("D1 ok");
}
