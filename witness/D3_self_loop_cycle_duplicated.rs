fn main(){
    {
        use gdsl::digraph::*;
        let r = Node::<usize,(),u32>::new(0,());
        let a = Node::<usize,(),u32>::new(1,());
        r.connect(&a, 1); r.connect(&r, 2);
        for (name, cyc) in [("bfs", r.bfs().search_cycle()), ("dfs", r.dfs().search_cycle())] {
            let p = cyc.unwrap().to_vec_edges();
            assert_eq!(p.len(), 1, "{}: cycle through a self-loop must be the single edge, got {} edges", name, p.len());
            assert!(p[0].0.key() == &0 && p[0].1.key() == &0);
        }
        // ordinary paths unchanged
        let b = Node::<usize,(),u32>::new(2,());
        a.connect(&b, 3); b.connect(&r, 4);
        let r2 = Node::<usize,(),u32>::new(9,());
        r2.connect(&a, 5);
        let p = r2.bfs().target(&0).search_path().unwrap().to_vec_edges();
        assert_eq!(p.iter().map(|e| (*e.0.key(), *e.1.key())).collect::<Vec<_>>(), vec![(9,1),(1,2),(2,0)]);
    }
    {
        use gdsl::sync_digraph::*;
        let r = Node::<usize,(),u32>::new(0,());
        let a = Node::<usize,(),u32>::new(1,());
        r.connect(&a, 1); r.connect(&r, 2);
        let p = r.bfs().search_cycle().unwrap().to_vec_edges();
        assert_eq!(p.len(), 1);
    }
    println!("D3 ok");
}
