fn comps<I: Iterator<Item = Vec<u8>>>(it: I) -> Vec<Vec<u8>> {
    let mut c: Vec<Vec<u8>> = it.map(|mut v| { v.sort(); v }).collect();
    c.sort();
    c
}
fn main(){
    {
        // two cycles sharing node 1: 1<->2, 1<->3 is one strongly connected component
        use gdsl::digraph::*;
        let mut g = Graph::<u8,(),()>::new();
        for i in 1..=3 { g.insert(Node::new(i,())); }
        g[1].connect(&g[2],()); g[2].connect(&g[1],()); g[1].connect(&g[3],()); g[3].connect(&g[1],());
        let c = comps(g.scc().iter().map(|c| c.iter().map(|n| *n.key()).collect()));
        assert_eq!(c, vec![vec![1,2,3]]);
        // a 3-cycle with a chord and a tail: {1,2,3} and {4}
        let mut g = Graph::<u8,(),()>::new();
        for i in 1..=4 { g.insert(Node::new(i,())); }
        g[1].connect(&g[2],()); g[2].connect(&g[3],()); g[3].connect(&g[1],()); g[2].connect(&g[1],()); g[3].connect(&g[4],());
        let c = comps(g.scc().iter().map(|c| c.iter().map(|n| *n.key()).collect()));
        assert_eq!(c, vec![vec![1,2,3], vec![4]]);
    }
    {
        use gdsl::sync_digraph::*;
        let mut g = Graph::<u8,(),()>::new();
        for i in 1..=3 { g.insert(Node::new(i,())); }
        g[1].connect(&g[2],()); g[2].connect(&g[1],()); g[1].connect(&g[3],()); g[3].connect(&g[1],());
        let c = comps(g.scc().iter().map(|c| c.iter().map(|n| *n.key()).collect()));
        assert_eq!(c, vec![vec![1,2,3]]);
    }
    println!("D10 ok");
}
