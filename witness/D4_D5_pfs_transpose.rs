fn main(){
    {
        use gdsl::digraph::*;
        // D4: a -> b ; searching backwards from b must find a
        let a = Node::<usize,u32,u32>::new(1, 10);
        let b = Node::<usize,u32,u32>::new(2, 20);
        a.connect(&b, 7);
        let found = b.pfs().transpose().target(&1).search();
        assert!(found.is_some(), "D4: pfs().transpose() (min) did not follow the incoming edge");
        let p = b.pfs().transpose().target(&1).search_path().unwrap().to_vec_edges();
        assert!(p.len()==1 && *p[0].0.key()==2 && *p[0].1.key()==1 && p[0].2==7, "D4: reversed edge expected");
        // D5: cycle a -> b -> a ; transposed cycle search from a must report reversed edges
        b.connect(&a, 8);
        for mode in 0..2 {
            let c = if mode==0 { a.pfs().min().transpose().search_cycle() } else { a.pfs().max().transpose().search_cycle() };
            let c = c.expect("cycle exists").to_vec_edges();
            let ks: Vec<(usize,usize,u32)> = c.iter().map(|e| (*e.0.key(), *e.1.key(), e.2)).collect();
            assert_eq!(ks, vec![(1,2,8),(2,1,7)], "D5: transposed cycle must follow incoming edges and report them reversed");
        }
    }
    {
        use gdsl::sync_digraph::*;
        let a = Node::<usize,u32,u32>::new(1, 10);
        let b = Node::<usize,u32,u32>::new(2, 20);
        a.connect(&b, 7);
        assert!(b.pfs().transpose().target(&1).search().is_some());
        b.connect(&a, 8);
        let c = a.pfs().transpose().search_cycle().unwrap().to_vec_edges();
        let ks: Vec<(usize,usize,u32)> = c.iter().map(|e| (*e.0.key(), *e.1.key(), e.2)).collect();
        assert_eq!(ks, vec![(1,2,8),(2,1,7)]);
    }
    println!("D4 D5 ok");
}
