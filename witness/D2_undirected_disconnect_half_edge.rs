fn main(){
    {
        use gdsl::ungraph::*;
        let a = Node::<usize,(),u32>::new(1,());
        let b = Node::<usize,(),u32>::new(2,());
        a.connect(&b, 7);
        assert_eq!(a.disconnect(b.key()).unwrap(), 7);
        assert!(!b.is_connected(a.key()), "b still lists a");
        assert_eq!(b.degree(), 0);
        a.connect(&b, 1); b.connect(&a, 2); a.connect(&a, 3);
        assert_eq!(a.degree(), 4); assert_eq!(b.degree(), 2);
        assert_eq!(a.disconnect(a.key()).unwrap(), 3); assert_eq!(a.degree(), 2);
        assert_eq!(b.disconnect(a.key()).unwrap(), 1); assert_eq!(a.degree(), 1); assert_eq!(b.degree(), 1);
        assert_eq!(b.disconnect(a.key()).unwrap(), 2);
        assert!(a.is_orphan() && b.is_orphan());
        assert!(a.disconnect(b.key()).is_err());
    }
    {
        use gdsl::sync_ungraph::*;
        let a = Node::<usize,(),u32>::new(1,());
        let b = Node::<usize,(),u32>::new(2,());
        a.connect(&b, 7);
        assert_eq!(a.disconnect(b.key()).unwrap(), 7);
        assert!(!b.is_connected(a.key()), "b still lists a");
        assert_eq!(b.degree(), 0);
        a.connect(&b, 1); b.connect(&a, 2); a.connect(&a, 3);
        assert_eq!(a.disconnect(a.key()).unwrap(), 3); assert_eq!(a.degree(), 2);
        assert_eq!(b.disconnect(a.key()).unwrap(), 1);
        assert_eq!(b.disconnect(a.key()).unwrap(), 2);
        assert!(a.is_orphan() && b.is_orphan());
    }
    println!("D2 ok");
}
